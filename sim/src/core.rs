//! Scenario interface, outcomes, known findings.

use crate::rng::Rng;
use serde::{Deserialize, Serialize, de::DeserializeOwned};
use serde_json::Value;
use std::collections::BTreeMap;

#[derive(Clone, Copy, Debug, PartialEq, Eq, Serialize, Deserialize)]
pub enum Tier {
    Quick,
    Thorough,
}
impl Tier {
    pub fn name(self) -> &'static str {
        match self {
            Tier::Quick => "quick",
            Tier::Thorough => "thorough",
        }
    }
}

#[derive(Clone, Debug, Serialize, Deserialize, PartialEq, Eq)]
pub struct Violation {
    /// stable identifier of the oracle clause that failed
    pub oracle: String,
    /// argument class (used to match known findings and by the minimiser:
    /// a shrunk case must fail the same oracle)
    pub class: BTreeMap<String, String>,
    /// observed vs expected, human readable
    pub detail: String,
}

impl Violation {
    pub fn new(oracle: &str, detail: String) -> Violation {
        Violation {
            oracle: oracle.to_string(),
            class: BTreeMap::new(),
            detail,
        }
    }
    pub fn with(mut self, k: &str, v: &str) -> Violation {
        self.class.insert(k.to_string(), v.to_string());
        self
    }
}

#[derive(Clone, Debug, Default, Serialize, Deserialize)]
pub struct Outcome {
    pub violation: Option<Violation>,
    /// ids of known findings that fired in this run
    pub known: Vec<String>,
    /// additive counters: fault kinds fired, probes hit, simulated time, ...
    pub counters: BTreeMap<String, u64>,
    /// fingerprint of the run's event log
    pub fingerprint: u64,
    /// non-trivial by the scenario's stated rule
    pub nontrivial: bool,
    /// executions of the code under test inside this case
    pub evals: u64,
}

impl Outcome {
    pub fn count(&mut self, k: &str, n: u64) {
        if n > 0 {
            let e = self.counters.entry(k.to_string()).or_insert(0);
            *e = e.saturating_add(n);
        }
    }
    pub fn fail(&mut self, v: Violation) {
        if self.violation.is_none() {
            self.violation = Some(v);
        }
    }
}

#[derive(Clone, Debug, Serialize, Deserialize)]
pub struct KnownFinding {
    pub id: String,
    #[serde(default)]
    pub status: String, // "open" (fixed entries are plain text lines and never loaded)
    pub property: String,
    pub oracle: String,
    #[serde(default)]
    pub class: BTreeMap<String, String>,
    #[serde(default)]
    pub commit: Option<String>,
    pub what: String,
}

#[derive(Clone, Debug, Default)]
pub struct Ctx {
    pub known: Vec<KnownFinding>,
    pub tier_thorough: bool,
}

impl Ctx {
    /// the open known finding matching this violation, if any. A `fixed`
    /// entry suppresses nothing.
    pub fn matches_known(&self, property: &str, v: &Violation) -> Option<&KnownFinding> {
        self.known.iter().find(|k| {
            k.status == "open"
                && k.property == property
                && k.oracle == v.oracle
                && k.class.iter().all(|(key, val)| v.class.get(key) == Some(val))
        })
    }
    pub fn load(path: &str) -> Ctx {
        let mut known = Vec::new();
        if let Ok(s) = std::fs::read_to_string(path) {
            for line in s.lines() {
                let line = line.trim();
                if line.is_empty() || line.starts_with('#') || line.starts_with("fixed:") {
                    continue;
                }
                let Some(js) = line.strip_prefix("open:") else {
                    eprintln!("HARNESS-ERROR: bad known_findings line: {line}");
                    std::process::exit(2);
                };
                match serde_json::from_str::<KnownFinding>(js.trim()) {
                    Ok(mut k) => {
                        k.status = "open".to_string();
                        known.push(k)
                    }
                    Err(e) => {
                        eprintln!("HARNESS-ERROR: bad known_findings line: {e}");
                        std::process::exit(2);
                    }
                }
            }
        }
        Ctx {
            known,
            tier_thorough: false,
        }
    }
}

pub trait Scenario {
    const ID: &'static str;
    const LEVEL: &'static str; // "exploration" | "fault_enumeration"
    type Case: Serialize + DeserializeOwned + Clone;

    /// Draw a case. May run the real code (reference runs used to place
    /// faults); everything the execution needs ends up explicit in the case.
    fn generate(rng: &mut Rng, tier: Tier, run: u64) -> Self::Case;
    /// Execute a case against the real code and evaluate the oracles.
    fn execute(case: &Self::Case, ctx: &Ctx) -> Outcome;
    /// Smaller variants of a failing case (the minimiser keeps one only if the
    /// same oracle still fails).
    fn shrink(case: &Self::Case) -> Vec<Self::Case>;
    /// a short rendering for the evidence file
    fn sample(case: &Self::Case) -> Value;

    fn rule() -> &'static str;
    fn default_runs(tier: Tier) -> u64;
    fn real_components() -> &'static [&'static str];
    fn stub_components() -> &'static [&'static str];
    fn assumptions() -> &'static [&'static str];
    /// counters that should be non-zero in a healthy batch (reach probes)
    fn reach_probes() -> &'static [&'static str] {
        &[]
    }
}
