//! `Sx`: the allocator-independent tree used for every workload item, replay
//! file and comparison. An arena DAG in topological order (children have
//! smaller indices than their parents), so nothing here recurses and shared
//! sub-trees are represented once.

use clvmr::allocator::{Allocator, NodePtr, NodeVisitor, SExp};
use clvmr::error::EvalErr;
use serde_json::{Value, json};
use sha2::{Digest, Sha256};
use std::collections::HashMap;

#[derive(Clone, Debug, PartialEq, Eq)]
pub enum SxNode {
    A(Vec<u8>),
    P(u32, u32),
}

#[derive(Clone, Debug, PartialEq, Eq)]
pub struct Sx {
    pub nodes: Vec<SxNode>,
    pub root: u32,
}

pub type Hash32 = [u8; 32];

impl Sx {
    pub fn atom(b: &[u8]) -> Sx {
        Sx {
            nodes: vec![SxNode::A(b.to_vec())],
            root: 0,
        }
    }
    pub fn nil() -> Sx {
        Sx::atom(&[])
    }

    pub fn len(&self) -> usize {
        self.nodes.len()
    }

    /// append `other` into this arena, returning the index of its root
    pub fn graft(&mut self, other: &Sx) -> u32 {
        let base = self.nodes.len() as u32;
        for n in &other.nodes {
            self.nodes.push(match n {
                SxNode::A(b) => SxNode::A(b.clone()),
                SxNode::P(l, r) => SxNode::P(l + base, r + base),
            });
        }
        other.root + base
    }

    pub fn push_atom(&mut self, b: &[u8]) -> u32 {
        self.nodes.push(SxNode::A(b.to_vec()));
        (self.nodes.len() - 1) as u32
    }
    pub fn push_pair(&mut self, l: u32, r: u32) -> u32 {
        debug_assert!((l as usize) < self.nodes.len() && (r as usize) < self.nodes.len());
        self.nodes.push(SxNode::P(l, r));
        (self.nodes.len() - 1) as u32
    }
    pub fn with_root(mut self, r: u32) -> Sx {
        self.root = r;
        self
    }

    /// proper list of the given element indices
    pub fn push_list(&mut self, items: &[u32]) -> u32 {
        let mut tail = self.push_atom(&[]);
        for i in items.iter().rev() {
            tail = self.push_pair(*i, tail);
        }
        tail
    }

    /// keep only nodes reachable from root (renumbering)
    pub fn compact(&self) -> Sx {
        let mut keep = vec![false; self.nodes.len()];
        keep[self.root as usize] = true;
        for i in (0..self.nodes.len()).rev() {
            if keep[i]
                && let SxNode::P(l, r) = self.nodes[i]
            {
                keep[l as usize] = true;
                keep[r as usize] = true;
            }
        }
        let mut map = vec![u32::MAX; self.nodes.len()];
        let mut out = Vec::new();
        for i in 0..self.nodes.len() {
            if keep[i] {
                map[i] = out.len() as u32;
                out.push(match &self.nodes[i] {
                    SxNode::A(b) => SxNode::A(b.clone()),
                    SxNode::P(l, r) => SxNode::P(map[*l as usize], map[*r as usize]),
                });
            }
        }
        Sx {
            root: map[self.root as usize],
            nodes: out,
        }
    }

    /// number of nodes of the fully expanded tree below each node (saturating)
    pub fn expanded_sizes(&self) -> Vec<u64> {
        let mut v = vec![0u64; self.nodes.len()];
        for i in 0..self.nodes.len() {
            v[i] = match self.nodes[i] {
                SxNode::A(_) => 1,
                SxNode::P(l, r) => 1u64
                    .saturating_add(v[l as usize])
                    .saturating_add(v[r as usize]),
            };
        }
        v
    }
    pub fn expanded_size(&self) -> u64 {
        self.expanded_sizes()[self.root as usize]
    }

    /// sha256 tree hash of every node, by the recursive definition
    pub fn tree_hashes(&self) -> Vec<Hash32> {
        let mut v: Vec<Hash32> = Vec::with_capacity(self.nodes.len());
        for n in &self.nodes {
            let mut h = Sha256::new();
            match n {
                SxNode::A(b) => {
                    h.update([1u8]);
                    h.update(b);
                }
                SxNode::P(l, r) => {
                    h.update([2u8]);
                    h.update(v[*l as usize]);
                    h.update(v[*r as usize]);
                }
            }
            v.push(h.finalize().into());
        }
        v
    }
    pub fn tree_hash(&self) -> Hash32 {
        self.tree_hashes()[self.root as usize]
    }

    /// structural equality as trees (sharing ignored); decided by tree hash
    pub fn same_tree(&self, other: &Sx) -> bool {
        self.tree_hash() == other.tree_hash()
    }

    /// Build into an allocator, one NodePtr per arena node (sharing kept).
    /// `mk_atom` decides how each atom is materialised.
    pub fn to_alloc_with(
        &self,
        a: &mut Allocator,
        mk_atom: &mut dyn FnMut(&mut Allocator, &[u8]) -> Result<NodePtr, EvalErr>,
    ) -> Result<NodePtr, EvalErr> {
        let mut ptrs: Vec<NodePtr> = Vec::with_capacity(self.nodes.len());
        // only build reachable nodes
        let mut keep = vec![false; self.nodes.len()];
        keep[self.root as usize] = true;
        for i in (0..self.nodes.len()).rev() {
            if keep[i]
                && let SxNode::P(l, r) = self.nodes[i]
            {
                keep[l as usize] = true;
                keep[r as usize] = true;
            }
        }
        for (i, n) in self.nodes.iter().enumerate() {
            if !keep[i] {
                ptrs.push(NodePtr::NIL);
                continue;
            }
            let p = match n {
                SxNode::A(b) => mk_atom(a, b)?,
                SxNode::P(l, r) => a.new_pair(ptrs[*l as usize], ptrs[*r as usize])?,
            };
            ptrs.push(p);
        }
        Ok(ptrs[self.root as usize])
    }

    pub fn to_alloc(&self, a: &mut Allocator) -> Result<NodePtr, EvalErr> {
        self.to_alloc_with(a, &mut |a, b| a.new_atom(b))
    }

    /// like to_alloc but also returns the NodePtr of every arena node
    pub fn to_alloc_all(&self, a: &mut Allocator) -> Result<Vec<NodePtr>, EvalErr> {
        let mut ptrs: Vec<NodePtr> = Vec::with_capacity(self.nodes.len());
        for n in &self.nodes {
            let p = match n {
                SxNode::A(b) => a.new_atom(b)?,
                SxNode::P(l, r) => a.new_pair(ptrs[*l as usize], ptrs[*r as usize])?,
            };
            ptrs.push(p);
        }
        Ok(ptrs)
    }

    /// Read a tree out of an allocator. Sharing by NodePtr identity is kept;
    /// `max_nodes` bounds the number of distinct nodes visited.
    pub fn from_alloc(a: &Allocator, root: NodePtr, max_nodes: usize) -> Option<Sx> {
        let mut memo: HashMap<NodePtr, u32> = HashMap::new();
        let mut nodes: Vec<SxNode> = Vec::new();
        enum Op {
            Visit(NodePtr),
            Build(NodePtr, NodePtr, NodePtr),
        }
        let mut ops = vec![Op::Visit(root)];
        while let Some(op) = ops.pop() {
            match op {
                Op::Visit(n) => {
                    if memo.contains_key(&n) {
                        continue;
                    }
                    if nodes.len() + ops.len() > max_nodes.saturating_mul(3) {
                        return None;
                    }
                    match a.sexp(n) {
                        SExp::Atom => {
                            let b: Vec<u8> = match a.node(n) {
                                NodeVisitor::Buffer(b) => b.to_vec(),
                                _ => a.atom(n).as_ref().to_vec(),
                            };
                            memo.insert(n, nodes.len() as u32);
                            nodes.push(SxNode::A(b));
                        }
                        SExp::Pair(l, r) => {
                            ops.push(Op::Build(n, l, r));
                            ops.push(Op::Visit(r));
                            ops.push(Op::Visit(l));
                        }
                    }
                }
                Op::Build(n, l, r) => {
                    if memo.contains_key(&n) {
                        continue;
                    }
                    let li = memo[&l];
                    let ri = memo[&r];
                    memo.insert(n, nodes.len() as u32);
                    nodes.push(SxNode::P(li, ri));
                    if nodes.len() > max_nodes {
                        return None;
                    }
                }
            }
        }
        let root = memo[&root];
        Some(Sx { nodes, root })
    }

    pub fn to_json(&self) -> Value {
        let c = self.compact();
        let nodes: Vec<Value> = c
            .nodes
            .iter()
            .map(|n| match n {
                SxNode::A(b) => Value::String(hex::encode(b)),
                SxNode::P(l, r) => json!([l, r]),
            })
            .collect();
        json!({"root": c.root, "nodes": nodes})
    }

    pub fn from_json(v: &Value) -> Option<Sx> {
        let root = v.get("root")?.as_u64()? as u32;
        let mut nodes = Vec::new();
        for (i, n) in v.get("nodes")?.as_array()?.iter().enumerate() {
            match n {
                Value::String(s) => nodes.push(SxNode::A(hex::decode(s).ok()?)),
                Value::Array(x) if x.len() == 2 => {
                    let l = x[0].as_u64()? as u32;
                    let r = x[1].as_u64()? as u32;
                    if l as usize >= i || r as usize >= i {
                        return None;
                    }
                    nodes.push(SxNode::P(l, r));
                }
                _ => return None,
            }
        }
        if root as usize >= nodes.len() {
            return None;
        }
        Some(Sx { nodes, root })
    }

    /// short human-readable rendering (truncated) for evidence samples
    pub fn brief(&self, max: usize) -> String {
        let mut out = String::new();
        let mut stack: Vec<Result<u32, &'static str>> = vec![Ok(self.root)];
        while let Some(it) = stack.pop() {
            if out.len() > max {
                out.push_str("...");
                break;
            }
            match it {
                Err(s) => out.push_str(s),
                Ok(i) => match &self.nodes[i as usize] {
                    SxNode::A(b) => {
                        if b.is_empty() {
                            out.push_str("()");
                        } else if b.len() > 12 {
                            out.push_str(&format!("0x{}..[{}]", hex::encode(&b[..6]), b.len()));
                        } else {
                            out.push_str(&format!("0x{}", hex::encode(b)));
                        }
                    }
                    SxNode::P(l, r) => {
                        out.push('(');
                        stack.push(Err(")"));
                        stack.push(Ok(*r));
                        stack.push(Err(" . "));
                        stack.push(Ok(*l));
                    }
                },
            }
        }
        out
    }

    /// replace node `i` by an atom and compact (used by the minimiser)
    pub fn with_node_replaced(&self, i: usize, n: SxNode) -> Sx {
        let mut c = self.clone();
        c.nodes[i] = n;
        c.compact()
    }

    /// the sub-tree rooted at node i
    pub fn subtree(&self, i: u32) -> Sx {
        Sx {
            nodes: self.nodes.clone(),
            root: i,
        }
        .compact()
    }

    /// candidates for minimisation: smaller trees derived from this one
    pub fn shrink_candidates(&self) -> Vec<Sx> {
        let c = self.compact();
        let mut out = Vec::new();
        if let SxNode::P(l, r) = c.nodes[c.root as usize] {
            out.push(c.subtree(l));
            out.push(c.subtree(r));
        }
        let n = c.nodes.len();
        // replace pairs (largest first) by nil, then shorten atoms
        for i in (0..n).rev() {
            match &c.nodes[i] {
                SxNode::P(l, r) => {
                    out.push(c.with_node_replaced(i, SxNode::A(vec![])));
                    // replace pair by one of its children: rebuild with redirect
                    for child in [*l, *r] {
                        let mut d = c.clone();
                        d.nodes[i] = d.nodes[child as usize].clone();
                        out.push(d.compact());
                    }
                }
                SxNode::A(b) => {
                    if !b.is_empty() {
                        out.push(c.with_node_replaced(i, SxNode::A(vec![])));
                        if b.len() > 1 {
                            out.push(c.with_node_replaced(i, SxNode::A(b[..b.len() / 2].to_vec())));
                            out.push(c.with_node_replaced(i, SxNode::A(b[..b.len() - 1].to_vec())));
                            out.push(c.with_node_replaced(i, SxNode::A(b[1..].to_vec())));
                        }
                        if b.iter().any(|x| *x != 1) {
                            out.push(c.with_node_replaced(i, SxNode::A(vec![1; b.len()])));
                        }
                    }
                }
            }
            if out.len() > 400 {
                break;
            }
        }
        out
    }
}
