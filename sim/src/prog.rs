//! Seeded CLVM program generator (typed expressions over the ChiaDialect
//! table, emitting `Sx`), softfork-guard cost calibration, and the helpers
//! that run a program on the real interpreter under simulator-owned entropy,
//! probes and resource caps.

use crate::rng::Rng;
use crate::seams::{EntropyGuard, EntropyPlan, EntropyStats, ProbeGuard, ProbeLog};
use crate::sx::{Hash32, Sx, SxNode};
use crate::util::err_name;
use chia_bls::{G1Element, G2Element, SecretKey};
use clvmr::allocator::{Allocator, NodePtr};
use clvmr::chia_dialect::{ChiaDialect, ClvmFlags};
use clvmr::dialect::Dialect;
use clvmr::error::EvalErr;
use clvmr::reduction::Reduction;
use clvmr::run_program::run_program;
use clvmr::verif::Probe;
use serde::{Deserialize, Serialize};

pub const F_CANONICAL_INTS: u32 = 0x0001;
pub const F_NO_UNKNOWN_OPS: u32 = 0x0002;
pub const F_LIMIT_HEAP: u32 = 0x0004;
pub const F_RELAXED_BLS: u32 = 0x0008;
pub const F_LIMIT_SOFTFORK: u32 = 0x0010;
pub const F_ENABLE_GC: u32 = 0x0020;
pub const F_LIMITS: u32 = 0x0040;
pub const F_KECCAK_OUTSIDE: u32 = 0x0100;
pub const F_DISABLE_OP: u32 = 0x0200;
pub const F_SHA256_TREE: u32 = 0x0400;
pub const F_SECP_OPS: u32 = 0x0800;
pub const F_MALACHITE: u32 = 0x1000;
pub const F_NEW_COST_MODEL: u32 = 0x2000;

#[derive(Clone, Copy, Debug, PartialEq, Eq)]
pub enum Kind {
    Int,
    Bytes,
    Bool,
    List,
    Tree,
    G1,
    G2,
    Bytes32,
    Any,
}

pub mod fam {
    pub const ARITH: u32 = 1;
    pub const BYTES: u32 = 2;
    pub const LOGIC: u32 = 4;
    pub const LIST: u32 = 8;
    pub const BLS: u32 = 16;
    pub const GUARD: u32 = 32;
    pub const UNKNOWN: u32 = 64;
    pub const SECP: u32 = 128;
    pub const KECCAK: u32 = 256;
    pub const SHATREE: u32 = 512;
    pub const GCSHAPES: u32 = 1024;
    pub const BIG: u32 = 2048;
    pub const APPLY: u32 = 4096;
    pub const RAISE: u32 = 8192;
    pub const DIVMOD: u32 = 16384;
}

#[derive(Clone, Debug)]
pub struct ProgCfg {
    pub families: u32,
    pub max_depth: u32,
    /// 1/n chance that an argument is of a random kind
    pub noise_one_in: u64,
    /// guards: maximum nesting generated on purpose
    pub guard_nesting: u32,
    /// allowed softfork extension numbers to draw from
    pub extensions: Vec<u32>,
    /// percent of guards whose declared cost is left wrong on purpose
    pub wrong_cost_pct: u64,
    pub malformed_guard_pct: u64,
    pub big_max: usize,
}

impl ProgCfg {
    pub fn swarm(rng: &mut Rng) -> ProgCfg {
        let mut families = 0u32;
        for (f, pct) in [
            (fam::ARITH, 70),
            (fam::BYTES, 70),
            (fam::LOGIC, 50),
            (fam::LIST, 60),
            (fam::BLS, 12),
            (fam::GUARD, 25),
            (fam::UNKNOWN, 15),
            (fam::SECP, 5),
            (fam::KECCAK, 15),
            (fam::SHATREE, 15),
            (fam::GCSHAPES, 35),
            (fam::BIG, 30),
            (fam::APPLY, 50),
            (fam::RAISE, 10),
            (fam::DIVMOD, 40),
        ] {
            if rng.below(100) < pct {
                families |= f;
            }
        }
        if families & (fam::ARITH | fam::BYTES | fam::LIST | fam::LOGIC) == 0 {
            families |= fam::ARITH | fam::BYTES;
        }
        ProgCfg {
            families,
            max_depth: 2 + rng.below(5) as u32,
            noise_one_in: *rng.pick(&[8u64, 32, 32, 64, 1000]),
            guard_nesting: *rng.pick(&[0u32, 1, 1, 2, 3]),
            extensions: vec![0, 1],
            wrong_cost_pct: 5,
            malformed_guard_pct: 5,
            big_max: 4096,
        }
    }
    pub fn has(&self, f: u32) -> bool {
        self.families & f != 0
    }
}

pub fn bls_points() -> &'static (Vec<[u8; 48]>, Vec<[u8; 96]>) {
    static POOL: std::sync::OnceLock<(Vec<[u8; 48]>, Vec<[u8; 96]>)> = std::sync::OnceLock::new();
    POOL.get_or_init(|| {
        let mut g1 = vec![G1Element::default().to_bytes()];
        let mut g2 = vec![G2Element::default().to_bytes()];
        for i in 0..4u8 {
            let sk = SecretKey::from_seed(&[i + 7; 32]);
            g1.push(sk.public_key().to_bytes());
            g2.push(chia_bls::sign(&sk, [i; 3]).to_bytes());
        }
        (g1, g2)
    })
}

/// a valid (signature, pk, msg) triple for bls_verify
pub fn bls_sig() -> &'static ([u8; 96], [u8; 48], Vec<u8>) {
    static S: std::sync::OnceLock<([u8; 96], [u8; 48], Vec<u8>)> = std::sync::OnceLock::new();
    S.get_or_init(|| {
        let sk = SecretKey::from_seed(&[42; 32]);
        let msg = b"clvmsim".to_vec();
        (chia_bls::sign(&sk, &msg).to_bytes(), sk.public_key().to_bytes(), msg)
    })
}

/// valid (pubkey, digest, signature) triples for secp256k1 / secp256r1, signed by the harness
pub fn secp_vectors() -> &'static (Vec<(Vec<u8>, Vec<u8>, Vec<u8>)>, Vec<(Vec<u8>, Vec<u8>, Vec<u8>)>) {
    use k256::ecdsa::signature::hazmat::PrehashSigner;
    static V: std::sync::OnceLock<(Vec<(Vec<u8>, Vec<u8>, Vec<u8>)>, Vec<(Vec<u8>, Vec<u8>, Vec<u8>)>)> = std::sync::OnceLock::new();
    V.get_or_init(|| {
        let mut k1 = Vec::new();
        let mut r1 = Vec::new();
        for i in 1..4u8 {
            let digest = [i.wrapping_mul(37); 32];
            let mut key = [0u8; 32];
            key[31] = i;
            key[5] = 0x5a;
            if let Ok(sk) = k256::ecdsa::SigningKey::from_slice(&key) {
                let sig: Result<k256::ecdsa::Signature, _> = sk.sign_prehash(&digest);
                if let Ok(sig) = sig {
                    let pk = sk.verifying_key().to_sec1_point(true).as_bytes().to_vec();
                    k1.push((pk, digest.to_vec(), sig.to_bytes().to_vec()));
                }
            }
            if let Ok(sk) = p256::ecdsa::SigningKey::from_slice(&key) {
                let sig: Result<p256::ecdsa::Signature, _> = sk.sign_prehash(&digest);
                if let Ok(sig) = sig {
                    let pk = sk.verifying_key().to_sec1_point(true).as_bytes().to_vec();
                    r1.push((pk, digest.to_vec(), sig.to_bytes().to_vec()));
                }
            }
        }
        (k1, r1)
    })
}

pub struct GenProg {
    pub prog: Sx,
    pub env: Sx,
    /// arena indices (in prog) of the declared-cost atoms of generated guards
    pub guard_cost_atoms: Vec<u32>,
}

/// integers at machine-word and representation boundaries: 0, +-1, +-2 and +-(2^k + d) for
/// d in -1..=1. `hot`: only the word-size boundaries (k in 31, 32, 63, 64), so that two operands
/// of one operator are likely to be a specific pair such as (-2^63, -1)
pub fn boundary_int(rng: &mut Rng, hot: bool) -> Vec<u8> {
    if rng.chance(1, if hot { 3 } else { 6 }) {
        return int_bytes(*rng.pick(&[0i128, 1, -1, -1, 2, -2]));
    }
    let k: u32 = if hot { *rng.pick(&[31u32, 32, 63, 63, 64]) } else { *rng.pick(&[7u32, 8, 15, 16, 26, 31, 32, 63, 64, 100, 126]) };
    let d = rng.below(3) as i128 - 1;
    let v = (1i128 << k) + d;
    int_bytes(if rng.bool() { v } else { -v })
}

struct PB<'r> {
    t: Sx,
    rng: &'r mut Rng,
    cfg: ProgCfg,
    /// this program draws its integer constants from the word-size boundaries
    hot_ints: bool,
    env_kinds: Vec<Kind>,
    guard_atoms: Vec<(u32, u32)>, // (atom idx, depth)
    guard_depth: u32,
    big_pool: Vec<Vec<u8>>,
}

pub fn int_bytes(v: i128) -> Vec<u8> {
    if v == 0 {
        return vec![];
    }
    let neg = v < 0;
    let mag = v.unsigned_abs().to_be_bytes();
    crate::model::minimal_int_bytes(neg, &mag)
}

impl PB<'_> {
    fn atom(&mut self, b: &[u8]) -> u32 {
        self.t.push_atom(b)
    }
    fn pair(&mut self, l: u32, r: u32) -> u32 {
        self.t.push_pair(l, r)
    }
    fn list(&mut self, items: &[u32]) -> u32 {
        self.t.push_list(items)
    }
    fn q(&mut self, v: u32) -> u32 {
        let one = self.atom(&[1]);
        self.pair(one, v)
    }
    fn op(&mut self, code: &[u8], args: &[u32]) -> u32 {
        let o = self.atom(code);
        let l = self.list(args);
        self.pair(o, l)
    }
    fn op1(&mut self, code: u8, args: &[u32]) -> u32 {
        self.op(&[code], args)
    }

    fn big_bytes(&mut self) -> Vec<u8> {
        if !self.big_pool.is_empty() && self.rng.chance(1, 2) {
            return self.rng.pick(&self.big_pool).clone();
        }
        let n = 600 + self.rng.usize(self.cfg.big_max.max(700) - 600);
        let b = self.rng.bytes(n);
        self.big_pool.push(b.clone());
        b
    }

    /// a constant value (not a program) of the given kind
    fn value(&mut self, kind: Kind) -> u32 {
        match kind {
            Kind::Int if self.hot_ints && self.rng.chance(3, 4) => {
                let b = boundary_int(self.rng, true);
                self.atom(&b)
            }
            Kind::Int => {
                let b = match self.rng.below(13) {
                    12 => boundary_int(self.rng, false),
                    0..=4 => int_bytes(self.rng.below(300) as i128 - 20),
                    5 => int_bytes(*self.rng.pick(&[0x7fi128, 0x80, 0xff, 0x100, 0x7fff, 0x8000, 0x3ffffff, 0x4000000, 0x7fffffff, 0x80000000, u64::MAX as i128, -1, -128, -129])),
                    6 => {
                        let n = 5 + self.rng.usize(12);
                        self.rng.bytes(n)
                    }
                    7 => {
                        let n = 20 + self.rng.usize(60);
                        self.rng.bytes(n)
                    }
                    8 => {
                        // non-canonical: redundant leading zeros / 0xff
                        let n = 1 + self.rng.usize(4);
                        let mut b = self.rng.bytes(n);
                        b.insert(0, if self.rng.bool() { 0 } else { 0xff });
                        b
                    }
                    9 if self.cfg.has(fam::BIG) => self.big_bytes(),
                    _ => int_bytes(self.rng.below(1 << 40) as i128),
                };
                self.atom(&b)
            }
            Kind::Bytes => {
                let b = match self.rng.below(8) {
                    0 => vec![],
                    1..=3 => {
                        let n = 1 + self.rng.usize(10);
                        self.rng.bytes(n)
                    }
                    4 => self.rng.bytes(32),
                    5 if self.cfg.has(fam::BIG) => self.big_bytes(),
                    _ => {
                        let n = 30 + self.rng.usize(70);
                        self.rng.bytes(n)
                    }
                };
                self.atom(&b)
            }
            Kind::Bytes32 => {
                let b = self.rng.bytes(32);
                self.atom(&b)
            }
            Kind::Bool => match self.rng.below(5) {
                0 | 1 => self.atom(&[]),
                2 => self.atom(&[1]),
                3 => self.atom(&[0]),
                _ => {
                    let n = self.atom(&[]);
                    self.pair(n, n)
                }
            },
            Kind::G1 => {
                let (g1, _) = bls_points();
                match self.rng.below(10) {
                    0 => {
                        let b = self.rng.bytes(48);
                        self.atom(&b)
                    }
                    1 => {
                        let b = self.rng.bytes(47);
                        self.atom(&b)
                    }
                    _ => {
                        let p = *self.rng.pick(g1);
                        self.atom(&p)
                    }
                }
            }
            Kind::G2 => {
                let (_, g2) = bls_points();
                match self.rng.below(10) {
                    0 => {
                        let b = self.rng.bytes(96);
                        self.atom(&b)
                    }
                    _ => {
                        let p = *self.rng.pick(g2);
                        self.atom(&p)
                    }
                }
            }
            Kind::List => {
                let n = self.rng.usize(4);
                let items: Vec<u32> = (0..n)
                    .map(|_| {
                        let k = *self.rng.pick(&[Kind::Int, Kind::Bytes, Kind::Bool]);
                        self.value(k)
                    })
                    .collect();
                self.list(&items)
            }
            Kind::Tree | Kind::Any => match self.rng.below(4) {
                0 => self.value(Kind::Int),
                1 => self.value(Kind::Bytes),
                2 => self.value(Kind::List),
                _ => {
                    let a = self.value(Kind::Int);
                    let b = self.value(Kind::Bytes);
                    self.pair(a, b)
                }
            },
        }
    }

    fn env_path(&mut self, i: usize) -> u32 {
        // i-th element of the environment list: i times rest, then first
        let v: u128 = ((1u128 << i) - 1) + (1u128 << (i + 1));
        let b = int_bytes(v as i128);
        self.atom(&b)
    }

    fn leaf(&mut self, kind: Kind) -> u32 {
        // environment reference of a matching kind, or a quoted constant
        let matching: Vec<usize> = self.env_kinds.iter().enumerate().filter(|(_, k)| **k == kind || kind == Kind::Any || kind == Kind::Tree).map(|(i, _)| i).collect();
        if !matching.is_empty() && self.rng.chance(2, 5) {
            // in long environments prefer the far end (long paths)
            let i = if matching.len() > 8 && self.rng.bool() { matching[matching.len() - 1 - self.rng.usize(matching.len() / 2)] } else { *self.rng.pick(&matching) };
            return self.env_path(i);
        }
        if self.rng.chance(1, 40) {
            // whole environment / odd paths
            let b = int_bytes(*self.rng.pick(&[1i128, 3, 7, 0, 6, 11]));
            return self.atom(&b);
        }
        let v = self.value(kind);
        self.q(v)
    }

    fn expr(&mut self, kind: Kind, depth: u32) -> u32 {
        let kind = if self.cfg.noise_one_in > 0 && self.rng.chance(1, self.cfg.noise_one_in) {
            *self.rng.pick(&[Kind::Int, Kind::Bytes, Kind::Bool, Kind::List, Kind::Tree, Kind::G1, Kind::G2, Kind::Bytes32])
        } else {
            kind
        };
        if depth == 0 || self.rng.chance(1, 5) {
            return self.leaf(kind);
        }
        let d = depth - 1;
        // structural forms available for every kind
        if self.cfg.has(fam::APPLY) && self.rng.chance(1, 8) {
            // (a (q . BODY) ENV) with the current environment passed through
            let body = self.expr(kind, d);
            let qb = self.q(body);
            let one = self.atom(&[1]);
            return self.op1(2, &[qb, one]);
        }
        if self.rng.chance(1, 10) {
            // (i C A B) eager, or lazy via apply
            let c = self.expr(Kind::Bool, d);
            let x = self.expr(kind, d);
            let y = self.expr(kind, d);
            if self.cfg.has(fam::APPLY) && self.rng.bool() {
                let qx = self.q(x);
                let qy = self.q(y);
                let iff = self.op1(3, &[c, qx, qy]);
                let one = self.atom(&[1]);
                return self.op1(2, &[iff, one]);
            }
            return self.op1(3, &[c, x, y]);
        }
        if self.cfg.has(fam::GUARD) && self.cfg.has(fam::BLS) && self.guard_depth == 0 && self.rng.chance(1, 6) {
            return self.guard_then_reuse();
        }
        if self.cfg.has(fam::GUARD) && self.guard_depth < self.cfg.guard_nesting.max(1) && self.rng.chance(1, 6) {
            return self.guard(d);
        }
        if self.cfg.has(fam::GCSHAPES) && self.rng.chance(1, 6) {
            return self.gc_shape(kind, d);
        }
        if self.cfg.has(fam::UNKNOWN) && self.rng.chance(1, 12) {
            return self.unknown_op(d);
        }
        if self.cfg.has(fam::RAISE) && self.rng.chance(1, 40) {
            let x = self.expr(Kind::Any, d);
            return self.op1(8, &[x]);
        }
        match kind {
            Kind::Int => self.int_expr(d),
            Kind::Bytes => self.bytes_expr(d),
            Kind::Bytes32 => self.bytes32_expr(d),
            Kind::Bool => self.bool_expr(d),
            Kind::List => self.list_expr(d),
            Kind::G1 => self.g1_expr(d),
            Kind::G2 => self.g2_expr(d),
            Kind::Tree | Kind::Any => {
                let k = *self.rng.pick(&[Kind::Int, Kind::Bytes, Kind::Bool, Kind::List, Kind::Bytes32]);
                self.expr(k, depth)
            }
        }
    }

    fn varargs(&mut self, kind: Kind, d: u32, min: usize, max: usize) -> Vec<u32> {
        // rarely a long argument list (all leaves), otherwise min..=max
        if max >= 3 && self.rng.chance(1, 300) {
            let n = 20 + self.rng.usize(400);
            return (0..n).map(|_| self.leaf(kind)).collect();
        }
        let n = min + self.rng.usize(max - min + 1);
        // error precedence: 1/25 of the variadic calls get well-typed constant operands followed
        // by one operand of the wrong kind (a pair), so that the operator's argument loop meets
        // budget, representation and type error in one call
        if max >= 2 && self.rng.chance(1, 25) {
            let k = 1 + self.rng.usize(max.min(4));
            let mut v: Vec<u32> = (0..k).map(|_| self.leaf(kind)).collect();
            let bad = self.value(Kind::List);
            let qbad = self.q(bad);
            let nilp = {
                let n = self.atom(&[]);
                let p = self.pair(n, n);
                self.q(p)
            };
            v.push(if self.rng.bool() { qbad } else { nilp });
            return v;
        }
        (0..n).map(|_| self.expr(kind, d)).collect()
    }

    fn int_expr(&mut self, d: u32) -> u32 {
        if !self.cfg.has(fam::ARITH) {
            return self.leaf(Kind::Int);
        }
        match self.rng.below(16) {
            0..=2 => {
                let a = self.varargs(Kind::Int, d, 0, 4);
                self.op1(16, &a)
            }
            3 | 4 => {
                let a = self.varargs(Kind::Int, d, 0, 4);
                self.op1(17, &a)
            }
            5 => {
                let a = self.varargs(Kind::Int, d, 0, 3);
                self.op1(18, &a)
            }
            6 if self.cfg.has(fam::DIVMOD) => {
                let a = self.expr(Kind::Int, d);
                let b = self.expr(Kind::Int, d);
                let code = *self.rng.pick(&[19u8, 61]);
                self.op1(code, &[a, b])
            }
            7 => {
                let a = self.expr(Kind::Int, d);
                let sh = {
                    let v = match self.rng.below(12) {
                        0 => *self.rng.pick(&[65535i128, 65536, -65535, -65536, 1 << 20, 255, 256, -256]),
                        1 => self.rng.below(3000) as i128 - 1500,
                        _ => self.rng.below(70) as i128 - 20,
                    };
                    let b = int_bytes(v);
                    let n = self.atom(&b);
                    self.q(n)
                };
                let code = *self.rng.pick(&[22u8, 23]);
                self.op1(code, &[a, sh])
            }
            8 => {
                let a = self.varargs(Kind::Int, d, 0, 3);
                let code = *self.rng.pick(&[24u8, 25, 26]);
                self.op1(code, &a)
            }
            9 => {
                let a = self.expr(Kind::Int, d);
                self.op1(27, &[a])
            }
            10 => {
                let a = self.expr(Kind::Bytes, d);
                self.op1(13, &[a])
            }
            11 if self.cfg.has(fam::DIVMOD) => {
                // modpow with small exponent and modulus
                let b = self.expr(Kind::Int, d);
                let e = {
                    let v = self.rng.below(40) as i128;
                    let n = self.atom(&int_bytes(v));
                    self.q(n)
                };
                let m = {
                    let v = 1 + self.rng.below(100000) as i128;
                    let n = self.atom(&int_bytes(v));
                    self.q(n)
                };
                self.op1(60, &[b, e, m])
            }
            12 if self.cfg.has(fam::DIVMOD) && self.cfg.has(fam::LIST) => {
                // (f (divmod a b))
                let a = self.expr(Kind::Int, d);
                let b = self.expr(Kind::Int, d);
                let dm = self.op1(20, &[a, b]);
                let code = *self.rng.pick(&[5u8, 6]);
                self.op1(code, &[dm])
            }
            _ => {
                let a = self.varargs(Kind::Int, d, 1, 3);
                self.op1(16, &a)
            }
        }
    }

    fn bytes_expr(&mut self, d: u32) -> u32 {
        if !self.cfg.has(fam::BYTES) {
            return self.leaf(Kind::Bytes);
        }
        match self.rng.below(8) {
            0..=2 => {
                let a = self.varargs(Kind::Bytes, d, 0, 4);
                self.op1(14, &a)
            }
            3 | 4 => {
                let s = self.expr(Kind::Bytes, d);
                let i1 = {
                    let v = match self.rng.below(10) {
                        0 => *self.rng.pick(&[-1i128, 1 << 31, (1 << 32) + 1, 70000]),
                        1 => self.rng.below(5000) as i128,
                        _ => self.rng.below(6) as i128,
                    };
                    let n = self.atom(&int_bytes(v));
                    self.q(n)
                };
                if self.rng.bool() {
                    self.op1(12, &[s, i1])
                } else {
                    let i2 = {
                        let v = self.rng.below(40) as i128;
                        let n = self.atom(&int_bytes(v));
                        self.q(n)
                    };
                    self.op1(12, &[s, i1, i2])
                }
            }
            5 => self.bytes32_expr(d),
            6 => self.int_expr(d),
            _ => self.leaf(Kind::Bytes),
        }
    }

    fn bytes32_expr(&mut self, d: u32) -> u32 {
        match self.rng.below(6) {
            0..=2 => {
                let a = self.varargs(Kind::Bytes, d, 0, 3);
                self.op1(11, &a)
            }
            3 => {
                let p = self.expr(Kind::Bytes32, d);
                let ph = self.expr(Kind::Bytes32, d);
                let amt = {
                    let b = match self.rng.below(8) {
                        0 => int_bytes(-(self.rng.below(1000) as i128) - 1),
                        1 => {
                            let mut b = int_bytes(self.rng.below(1 << 20) as i128 + 1);
                            b.insert(0, 0);
                            b
                        }
                        2 => int_bytes((u64::MAX as i128) + self.rng.below(3) as i128 - 1),
                        _ => int_bytes(self.rng.below(1 << 40) as i128),
                    };
                    let n = self.atom(&b);
                    self.q(n)
                };
                self.op1(48, &[p, ph, amt])
            }
            4 if self.cfg.has(fam::KECCAK) => {
                let a = self.varargs(Kind::Bytes, d, 0, 3);
                self.op1(62, &a)
            }
            5 if self.cfg.has(fam::SHATREE) => {
                let a = self.expr(Kind::Tree, d);
                self.op1(63, &[a])
            }
            _ => self.leaf(Kind::Bytes32),
        }
    }

    fn bool_expr(&mut self, d: u32) -> u32 {
        if !self.cfg.has(fam::LOGIC) {
            return self.leaf(Kind::Bool);
        }
        match self.rng.below(9) {
            0 => {
                let a = self.expr(Kind::Any, d);
                self.op1(7, &[a])
            }
            1 => {
                let a = self.expr(Kind::Bytes, d);
                let b = self.expr(Kind::Bytes, d);
                self.op1(9, &[a, b])
            }
            2 => {
                let a = self.expr(Kind::Bytes, d);
                let b = self.expr(Kind::Bytes, d);
                self.op1(10, &[a, b])
            }
            3 => {
                let a = self.expr(Kind::Int, d);
                let b = self.expr(Kind::Int, d);
                self.op1(21, &[a, b])
            }
            4 => {
                let a = self.expr(Kind::Bool, d);
                self.op1(32, &[a])
            }
            5 | 6 => {
                let a = self.varargs(Kind::Bool, d, 0, 3);
                let code = *self.rng.pick(&[33u8, 34]);
                self.op1(code, &a)
            }
            7 if self.cfg.has(fam::BLS) => self.bls_check(d),
            8 if self.cfg.has(fam::SECP) => self.secp(d),
            _ => self.leaf(Kind::Bool),
        }
    }

    fn list_expr(&mut self, d: u32) -> u32 {
        if !self.cfg.has(fam::LIST) {
            return self.leaf(Kind::List);
        }
        match self.rng.below(6) {
            0..=2 => {
                let a = self.expr(Kind::Any, d);
                let b = self.expr(Kind::List, d);
                self.op1(4, &[a, b])
            }
            3 => {
                let a = self.expr(Kind::List, d);
                self.op1(6, &[a])
            }
            4 if self.cfg.has(fam::DIVMOD) => {
                let a = self.expr(Kind::Int, d);
                let b = self.expr(Kind::Int, d);
                self.op1(20, &[a, b])
            }
            _ => self.leaf(Kind::List),
        }
    }

    /// a 48- or 96-byte atom that is *computed* (a fresh heap atom): two halves concatenated, or a
    /// slice of a longer constant; the halves come from a valid point about half of the time
    fn computed_point_blob(&mut self, len: usize) -> u32 {
        let (g1, g2) = bls_points();
        let mut b: Vec<u8> = if self.rng.bool() {
            if len == 48 { self.rng.pick(g1).to_vec() } else { self.rng.pick(g2).to_vec() }
        } else {
            self.rng.bytes(len)
        };
        if self.rng.chance(1, 3) {
            let i = self.rng.usize(len);
            b[i] ^= 1 << self.rng.below(8);
        }
        if self.rng.bool() {
            let k = 1 + self.rng.usize(len - 1);
            let x = self.atom(&b[..k]);
            let qx = self.q(x);
            let y = self.atom(&b[k..]);
            let qy = self.q(y);
            self.op1(14, &[qx, qy])
        } else {
            let pre = 1 + self.rng.usize(6);
            let mut long = self.rng.bytes(pre);
            long.extend_from_slice(&b);
            long.extend_from_slice(&[7, 7, 7]);
            let l = self.atom(&long);
            let ql = self.q(l);
            let s0 = self.atom(&int_bytes(pre as i128));
            let qs0 = self.q(s0);
            let s1 = self.atom(&int_bytes((pre + len) as i128));
            let qs1 = self.q(s1);
            self.op1(12, &[ql, qs0, qs1])
        }
    }

    fn g1_expr(&mut self, d: u32) -> u32 {
        if !self.cfg.has(fam::BLS) {
            return self.leaf(Kind::G1);
        }
        if self.rng.chance(1, 8) {
            return self.computed_point_blob(48);
        }
        match self.rng.below(7) {
            0 => {
                let a = self.varargs(Kind::G1, d, 0, 3);
                self.op1(29, &a)
            }
            1 => {
                let a = self.expr(Kind::Int, d.min(1));
                self.op1(30, &[a])
            }
            2 => {
                let a = self.varargs(Kind::G1, d, 0, 3);
                self.op1(49, &a)
            }
            3 => {
                let a = self.expr(Kind::G1, d);
                let b = self.expr(Kind::Int, d.min(1));
                self.op1(50, &[a, b])
            }
            4 => {
                let a = self.expr(Kind::G1, d);
                self.op1(51, &[a])
            }
            5 => {
                let a = self.expr(Kind::Bytes, d.min(1));
                self.op1(56, &[a])
            }
            _ => self.leaf(Kind::G1),
        }
    }

    fn g2_expr(&mut self, d: u32) -> u32 {
        if !self.cfg.has(fam::BLS) {
            return self.leaf(Kind::G2);
        }
        if self.rng.chance(1, 8) {
            return self.computed_point_blob(96);
        }
        match self.rng.below(6) {
            0 => {
                let a = self.varargs(Kind::G2, d, 0, 3);
                let code = *self.rng.pick(&[52u8, 53]);
                self.op1(code, &a)
            }
            1 => {
                let a = self.expr(Kind::G2, d);
                let b = self.expr(Kind::Int, d.min(1));
                self.op1(54, &[a, b])
            }
            2 => {
                let a = self.expr(Kind::G2, d);
                self.op1(55, &[a])
            }
            3 => {
                let a = self.expr(Kind::Bytes, d.min(1));
                self.op1(57, &[a])
            }
            _ => self.leaf(Kind::G2),
        }
    }

    fn bls_check(&mut self, d: u32) -> u32 {
        if self.rng.bool() {
            // bls_verify sig pk msg (valid triple from the pool, sometimes perturbed)
            let (sig, pk, msg) = bls_sig().clone();
            let mut msg = msg;
            if self.rng.chance(1, 3) {
                msg.push(1);
            }
            let s = self.atom(&sig);
            let qs = self.q(s);
            let p = self.atom(&pk);
            let qp = self.q(p);
            let m = self.atom(&msg);
            let qm = self.q(m);
            self.op1(59, &[qs, qp, qm])
        } else {
            let n = self.rng.usize(3);
            let mut args = Vec::new();
            for _ in 0..n {
                args.push(self.expr(Kind::G1, d.min(1)));
                args.push(self.expr(Kind::G2, d.min(1)));
            }
            self.op1(58, &args)
        }
    }

    fn secp(&mut self, d: u32) -> u32 {
        // arguments: pubkey (33 bytes), message digest (32), signature (64). Half of the time a
        // valid triple signed by the harness (sometimes for the other curve, or perturbed)
        let (k1, r1) = secp_vectors();
        let use_k1 = self.rng.bool();
        let (qpk, h, qs) = if self.rng.bool() && !k1.is_empty() && !r1.is_empty() {
            let (pk, dg, sg) = if use_k1 { self.rng.pick(k1).clone() } else { self.rng.pick(r1).clone() };
            let mut sg = sg;
            if self.rng.chance(1, 6) {
                let i = self.rng.usize(sg.len());
                sg[i] ^= 1;
            }
            let pk = self.atom(&pk);
            let qpk = self.q(pk);
            let dg = self.atom(&dg);
            let qd = self.q(dg);
            let sg = self.atom(&sg);
            let qs = self.q(sg);
            (qpk, qd, qs)
        } else {
            let pkb = {
                let mut b = self.rng.bytes(33);
                b[0] = 2 + (b[0] & 1);
                b
            };
            let pk = self.atom(&pkb);
            let qpk = self.q(pk);
            let h = self.expr(Kind::Bytes32, d.min(1));
            let sg = self.rng.bytes(64);
            let s = self.atom(&sg);
            let qs = self.q(s);
            (qpk, h, qs)
        };
        // the opcode: mostly the matching one; sometimes the other curve, the 1-byte forms, or a
        // neighbour that shares the 3-byte cost prefix but has a different last byte
        let k1_code = [0x13u8, 0xd6, 0x1f, 0x00];
        let r1_code = [0x1cu8, 0x3a, 0x8f, 0x00];
        let mut code = if use_k1 == !self.rng.chance(1, 8) { k1_code } else { r1_code };
        match self.rng.below(10) {
            0 => return self.op1(if use_k1 { 64 } else { 65 }, &[qpk, h, qs]),
            1 | 2 => code[3] = self.rng.below(256) as u8,
            3 => code[3] = *self.rng.pick(&[0x01u8, 0x3f, 0x40, 0x80, 0xc0, 0xff]),
            _ => {}
        }
        self.op(&code, &[qpk, h, qs])
    }

    fn unknown_op(&mut self, d: u32) -> u32 {
        let code: Vec<u8> = match self.rng.below(8) {
            0 => vec![15],
            1 => vec![28],
            2 => vec![31],
            3 => vec![35],
            4 => vec![0x00, 0x01, 0x40],
            5 => vec![0x12, 0x34, 0x56, 0x80 | self.rng.below(64) as u8],
            6 => vec![0x00, self.rng.below(4) as u8, 0xc0],
            _ => {
                let n = 1 + self.rng.usize(5);
                self.rng.bytes(n)
            }
        };
        let a = self.varargs(Kind::Bytes, d, 0, 3);
        self.op(&code, &a)
    }

    /// shapes that exercise the value-preserving restore: a GC-candidate
    /// operator whose evaluation allocates >= 1 KiB and whose result is
    /// (a) pre-existing, (b) a small new atom, (c) a large new atom,
    /// (d) a substring of pre-existing data, (e) a pair
    fn gc_shape(&mut self, _kind: Kind, d: u32) -> u32 {
        let big1 = {
            let b = self.big_bytes();
            let a = self.atom(&b);
            self.q(a)
        };
        let big2 = {
            let b = self.big_bytes();
            let a = self.atom(&b);
            self.q(a)
        };
        let cat = self.op1(14, &[big1, big2]);
        match self.rng.below(13) {
            12 => {
                // the operator's first allocation touches a value of the ENVIRONMENT (possibly the
                // newest thing on the heap when the run starts), the garbage comes afterwards, and
                // the result is that first value: (a (q . (r (c GARBAGE (OP ENVREF (q . tail))))) 1)
                // (operands are evaluated last to first)
                let envref = self.leaf(Kind::Bytes);
                let t = {
                    let n = 1 + self.rng.usize(6);
                    let b = self.rng.bytes(n);
                    let a = self.atom(&b);
                    self.q(a)
                };
                let first = match self.rng.below(3) {
                    0 => self.op1(14, &[envref, t]),
                    1 => {
                        let k = self.rng.below(3) as i128;
                        let i = self.atom(&int_bytes(k));
                        let qi = self.q(i);
                        self.op1(12, &[envref, qi])
                    }
                    _ => self.op1(14, &[envref]),
                };
                let pairc = self.op1(4, &[cat, first]);
                let body = self.op1(6, &[pairc]);
                let qb = self.q(body);
                let one = self.atom(&[1]);
                self.op1(2, &[qb, one])
            }
            9 | 10 => self.gc_small_heap_result(cat),
            11 => {
                // garbage made of atom SLOTS and pairs only: (sha256 (substr BIG i j) x 64..140);
                // the digest is the only heap allocation since the checkpoint
                let n = 64 + self.rng.usize(77);
                let mut args = Vec::with_capacity(n);
                for _ in 0..n {
                    let lo = self.rng.usize(500);
                    let hi = lo + self.rng.usize(3);
                    let i = self.atom(&int_bytes(lo as i128));
                    let qi = self.q(i);
                    let j = self.atom(&int_bytes(hi as i128));
                    let qj = self.q(j);
                    args.push(self.op1(12, &[big1, qi, qj]));
                }
                let code = *self.rng.pick(&[11u8, 11, 11, 14, 13]);
                self.op1(code, &args)
            }
            0 => self.op1(13, &[cat]),             // strlen: small inline result
            1 => self.op1(11, &[cat]),             // sha256: 32-byte new atom (clone path)
            2 => {
                // apply returning a large new atom (abort path)
                let two = self.atom(&[2]);
                let body = self.op1(14, &[two, two]);
                let qb = self.q(body);
                let args = self.list(&[cat]);
                let four = self.atom(&[4]);
                let _ = four;
                let one = self.atom(&[1]);
                let qone = self.q(one);
                let _ = qone;
                // (a (q . (concat 2 2)) (c CAT ()))
                let nil = self.atom(&[]);
                let qnil = self.q(nil);
                let env = self.op1(4, &[cat, qnil]);
                let _ = args;
                self.op1(2, &[qb, env])
            }
            3 => {
                // apply returning a substring of pre-existing program data (old-bytes path)
                let two = self.atom(&[2]);
                // (any slice, the empty one and the whole atom included)
                let (lo, hi) = match self.rng.below(4) {
                    0 => (3, 300),
                    1 => {
                        let k = self.rng.usize(600);
                        (k, k)
                    }
                    2 => (0, self.rng.usize(5)),
                    _ => {
                        let k = self.rng.usize(500);
                        (k, k + self.rng.usize(100))
                    }
                };
                let i1 = {
                    let n = self.atom(&int_bytes(lo as i128));
                    self.q(n)
                };
                let i2 = {
                    let n = self.atom(&int_bytes(hi as i128));
                    self.q(n)
                };
                let body = self.op1(12, &[two, i1, i2]);
                let qb = self.q(body);
                // environment: (BIGCONST . junk) where junk allocates >= 1 KiB
                let env = self.op1(4, &[big1, cat]);
                self.op1(2, &[qb, env])
            }
            4 => {
                // apply returning a pair (abort path)
                let two = self.atom(&[2]);
                let body = self.op1(4, &[two, two]);
                let qb = self.q(body);
                let nil = self.atom(&[]);
                let qnil = self.q(nil);
                let env = self.op1(4, &[cat, qnil]);
                self.op1(2, &[qb, env])
            }
            5 => {
                // apply returning a pre-existing node (quoted constant)
                let v = self.value(Kind::Bytes);
                let qv = self.q(v);
                let qb = self.q(qv);
                let nil = self.atom(&[]);
                let qnil = self.q(nil);
                let env = self.op1(4, &[cat, qnil]);
                self.op1(2, &[qb, env])
            }
            8 => {
                // garbage made of pairs only: (l (c 1 (c 1 ... 130..260 deep))) allocates no atom at all
                let depth = 130 + self.rng.usize(130);
                let one = self.atom(&[1]);
                let nil = self.atom(&[]);
                let mut acc = self.q(nil);
                for _ in 0..depth {
                    acc = self.op1(4, &[one, acc]);
                }
                self.op1(7, &[acc])
            }
            6 => {
                // (= (concat ..) (concat ..)) : result nil / one
                let cat2 = self.op1(14, &[big2, big1]);
                self.op1(9, &[cat, cat2])
            }
            _ => {
                // add over large operands (draws entropy in the pre-hard-fork slow path)
                let x = self.expr(Kind::Int, d.min(1));
                self.op1(16, &[cat, x])
            }
        }
    }

    /// apply whose result is a short atom stored on the heap after the checkpoint (a concat result
    /// or a view into one), whose bytes may or may not be a canonical small integer, and which is
    /// then consumed by operators whose allocator accounting depends on the representation of
    /// their operand (substr with assorted bounds, concat, strlen, =):
    /// (OUTER (a (q . BODY) (c CAT ())) ..)
    fn gc_small_heap_result(&mut self, cat: u32) -> u32 {
        let n = self.rng.usize(6);
        let bytes: Vec<u8> = (0..n)
            .map(|_| if self.rng.chance(3, 4) { *self.rng.pick(&[0x00u8, 0x01, 0x7f, 0x80, 0xff]) } else { self.rng.below(256) as u8 })
            .collect();
        let cut = self.rng.usize(n + 1);
        let (p1, p2) = (bytes[..cut].to_vec(), bytes[cut..].to_vec());
        let a1 = self.atom(&p1);
        let q1 = self.q(a1);
        let a2 = self.atom(&p2);
        let q2 = self.q(a2);
        let small_cat = self.op1(14, &[q1, q2]);
        let body = match self.rng.below(3) {
            0 => small_cat,
            1 => {
                // a view into the freshly concatenated bytes
                let junk = self.rng.bytes(3);
                let ja = self.atom(&junk);
                let qj = self.q(ja);
                let longer = self.op1(14, &[qj, small_cat, qj]);
                let i = self.atom(&int_bytes(3));
                let qi = self.q(i);
                let j = self.atom(&int_bytes(3 + n as i128));
                let qj2 = self.q(j);
                self.op1(12, &[longer, qi, qj2])
            }
            _ => {
                // a view into the big garbage of the environment
                let two = self.atom(&[2]);
                let at = self.rng.usize(500);
                let i = self.atom(&int_bytes(at as i128));
                let qi = self.q(i);
                let j = self.atom(&int_bytes((at + n) as i128));
                let qj = self.q(j);
                self.op1(12, &[two, qi, qj])
            }
        };
        let qb = self.q(body);
        let nil = self.atom(&[]);
        let qnil = self.q(nil);
        let env = self.op1(4, &[cat, qnil]);
        let applied = self.op1(2, &[qb, env]);
        let uses = 1 + self.rng.usize(3);
        let mut outs = Vec::new();
        for _ in 0..uses {
            let lo = self.rng.usize(n + 2);
            let hi = lo + self.rng.usize(n + 2 - lo.min(n + 1));
            let ilo = self.atom(&int_bytes(lo as i128));
            let qlo = self.q(ilo);
            let ihi = self.atom(&int_bytes(hi as i128));
            let qhi = self.q(ihi);
            let o = match self.rng.below(6) {
                0 | 1 => self.op1(12, &[applied, qlo, qhi]),
                2 => self.op1(12, &[applied, qlo]),
                3 => self.op1(14, &[applied, applied]),
                4 => self.op1(13, &[applied]),
                _ => self.op1(9, &[applied, q1]),
            };
            outs.push(o);
        }
        if outs.len() == 1 {
            return outs[0];
        }
        let mut acc = qnil;
        for o in outs.into_iter().rev() {
            acc = self.op1(4, &[o, acc]);
        }
        acc
    }

    /// The allocator's validated-point cache is the one piece of state an operator leaves behind.
    /// This shape runs a point operator inside a guard (whose allocations are rolled back at
    /// exit) and then the same operator on a freshly computed blob of the same size:
    /// (c (softfork COST EXT (q . (OP P)) 1) (c (OP BLOB) ()))
    fn guard_then_reuse(&mut self) -> u32 {
        let (g1, g2) = bls_points();
        let (code, len): (u8, usize) = *self.rng.pick(&[(51u8, 48usize), (55, 96), (51, 48), (29, 48), (49, 48), (52, 96)]);
        let p = if len == 48 { self.rng.pick(g1).to_vec() } else { self.rng.pick(g2).to_vec() };
        let pa = self.atom(&p);
        let qp = self.q(pa);
        let inner = self.op1(code, &[qp]);
        self.guard_depth += 1;
        let placeholder: u64 = (1u64 << 57) + self.guard_atoms.len() as u64;
        let cost_atom = self.atom(&int_bytes(placeholder as i128));
        self.guard_atoms.push((cost_atom, 1));
        self.guard_depth -= 1;
        let qcost = self.q(cost_atom);
        let extv = self.rng.below(2) as i128;
        let ext = self.atom(&int_bytes(extv));
        let qext = self.q(ext);
        let qinner = self.q(inner);
        let one = self.atom(&[1]);
        let g = self.op1(36, &[qcost, qext, qinner, one]);
        let blob = self.computed_point_blob(len);
        let again = self.op1(code, &[blob]);
        let nil = self.atom(&[]);
        let qnil = self.q(nil);
        let tail = self.op1(4, &[again, qnil]);
        self.op1(4, &[g, tail])
    }

    fn guard(&mut self, d: u32) -> u32 {
        self.guard_depth += 1;
        let depth_here = self.guard_depth;
        let ext_v: u32 = if self.rng.chance(1, 8) { *self.rng.pick(&[2u32, 3, 7, 255, 0x10000]) } else { *self.rng.pick(&self.cfg.extensions.clone()) };
        // inner program: keccak allowed inside extension 1
        let saved = self.cfg.families;
        if ext_v == 1 {
            self.cfg.families |= fam::KECCAK;
        }
        let inner = if self.guard_depth < self.cfg.guard_nesting && self.rng.chance(1, 2) {
            // nest another guard inside a list so that its result is visible
            let g = self.guard(d);
            let x = self.expr(Kind::Any, d.min(2));
            self.op1(4, &[g, x])
        } else {
            self.expr(Kind::Any, d.min(3))
        };
        self.cfg.families = saved;
        let mut placeholder: u64 = (1u64 << 58 >> depth_here.min(24)) + self.guard_atoms.len() as u64;
        if ext_v >= 2 && depth_here == 1 && self.rng.chance(1, 4) {
            // an unknown extension is a no-op that costs what it declares: also declare amounts
            // around 2^63 and close to 2^64
            placeholder = *self.rng.pick(&[1u64 << 63, (1u64 << 63) + 12345, (1u64 << 63) - 1, u64::MAX - 100_000, (1u64 << 62) + 7]);
        }
        let cost_atom = self.atom(&int_bytes(placeholder as i128));
        self.guard_atoms.push((cost_atom, depth_here));
        let qcost = self.q(cost_atom);
        let ext_b = if self.rng.chance(1, 30) {
            // non-canonical extension atom
            let mut b = int_bytes(ext_v as i128);
            b.insert(0, 0);
            b
        } else {
            int_bytes(ext_v as i128)
        };
        let ext = self.atom(&ext_b);
        let qext = self.q(ext);
        let qinner = self.q(inner);
        let one = self.atom(&[1]);
        let genv = if self.rng.bool() {
            one // pass the current environment through
        } else {
            let v = self.value(Kind::List);
            self.q(v)
        };
        self.guard_depth -= 1;
        if self.rng.below(100) < self.cfg.malformed_guard_pct {
            return match self.rng.below(4) {
                0 => self.op1(36, &[qcost, qext, qinner]),             // missing env
                1 => self.op1(36, &[qcost]),                            // only cost
                2 => {
                    let p = self.value(Kind::List);
                    let qp = self.q(p);
                    self.op1(36, &[qcost, qp, qinner, genv]) // pair where the extension atom is expected
                }
                _ => {
                    let z = self.atom(&[]);
                    let qz = self.q(z);
                    self.op1(36, &[qz, qext, qinner, genv]) // cost 0
                }
            };
        }
        self.op1(36, &[qcost, qext, qinner, genv])
    }
}

pub fn gen_program(rng: &mut Rng, cfg: &ProgCfg) -> GenProg {
    // environment: a list of typed values
    // mostly short environments; 1/6 long lists, so that element references need paths of up to
    // ~45 bits (crossing the 8/16/24/32-bit boundaries of the path encoding)
    let nenv = if rng.chance(1, 6) { 8 + rng.usize(40) } else { rng.usize(5) };
    let env_kinds: Vec<Kind> = (0..nenv)
        .map(|i| if i >= 6 { *rng.pick(&[Kind::Int, Kind::Int, Kind::Bool, Kind::Bytes]) } else { *rng.pick(&[Kind::Int, Kind::Int, Kind::Bytes, Kind::Bytes, Kind::Bool, Kind::List, Kind::G1, Kind::Bytes32]) })
        .collect();
    let hot_ints = rng.chance(1, 6);
    let mut pb = PB {
        t: Sx {
            nodes: Vec::new(),
            root: 0,
        },
        rng,
        hot_ints,
        cfg: cfg.clone(),
        env_kinds: env_kinds.clone(),
        guard_atoms: Vec::new(),
        guard_depth: 0,
        big_pool: Vec::new(),
    };
    let vals: Vec<u32> = env_kinds.iter().map(|k| pb.value(*k)).collect();
    let env_root = pb.list(&vals);
    let env = Sx {
        nodes: pb.t.nodes.clone(),
        root: env_root,
    }
    .compact();
    // the program proper, in a fresh arena so that guard atom indices stay valid
    pb.t = Sx {
        nodes: Vec::new(),
        root: 0,
    };
    let kind = if hot_ints && pb.rng.chance(3, 4) { Kind::Int } else { *pb.rng.pick(&[Kind::Int, Kind::Bytes, Kind::Bool, Kind::List, Kind::Any, Kind::Any]) };
    let depth = pb.cfg.max_depth;
    let root = if pb.cfg.has(fam::GUARD) && pb.rng.chance(1, 3) {
        // expose guard results: (c G1 (c G2 X))
        let n = 1 + pb.rng.usize(3);
        let mut tail = pb.expr(kind, depth.min(2));
        for _ in 0..n {
            let g = pb.guard(depth.min(3));
            tail = pb.op1(4, &[g, tail]);
        }
        tail
    } else {
        pb.expr(kind, depth)
    };
    pb.t.root = root;
    let guard_cost_atoms: Vec<u32> = pb.guard_atoms.iter().map(|(a, _)| *a).collect();
    GenProg {
        prog: pb.t,
        env,
        guard_cost_atoms,
    }
}

/// a random tree used as a program (type noise at the top level)
pub fn gen_random_program(rng: &mut Rng) -> GenProg {
    let cfg = crate::wgen::TreeCfg {
        max_leaves: 10,
        ..crate::wgen::TreeCfg::small()
    };
    let mut t = crate::wgen::gen_tree(rng, &cfg);
    // make the heads look like operators sometimes
    for n in t.nodes.iter_mut() {
        if let SxNode::A(b) = n
            && rng.chance(1, 3)
        {
            *b = vec![*rng.pick(&[1u8, 2, 3, 4, 5, 6, 7, 9, 11, 12, 14, 16, 17, 18, 33, 36])];
        }
    }
    let env = crate::wgen::gen_tree(rng, &cfg);
    GenProg {
        prog: t,
        env,
        guard_cost_atoms: vec![],
    }
}

// ---------------------------------------------------------------------------
// running

#[derive(Clone, Debug, PartialEq, Eq, Serialize, Deserialize)]
pub struct AllocCfg {
    /// None = Allocator::new()
    pub heap_limit: Option<u64>,
    pub ghost_atoms: u64,
    pub ghost_pairs: u64,
    /// unrelated heap atoms allocated before the program is built (an atom-heavy host allocator)
    #[serde(default)]
    pub junk_atoms: u32,
}
impl AllocCfg {
    pub fn unlimited() -> AllocCfg {
        AllocCfg {
            heap_limit: None,
            ghost_atoms: 0,
            ghost_pairs: 0,
            junk_atoms: 0,
        }
    }
    pub fn build(&self) -> Option<Allocator> {
        let mut a = match self.heap_limit {
            None => Allocator::new(),
            Some(l) => Allocator::new_limited(l.min(u32::MAX as u64) as usize),
        };
        // junk first: the cap distances are computed from a trajectory that already contains it
        for i in 0..self.junk_atoms {
            a.new_atom(&[0xEE, 0x10, (i >> 16) as u8, (i >> 8) as u8, i as u8, 0x01]).ok()?;
        }
        if self.ghost_atoms > 0 {
            a.add_ghost_atom(self.ghost_atoms as usize).ok()?;
        }
        if self.ghost_pairs > 0 {
            a.add_ghost_pair(self.ghost_pairs as usize).ok()?;
        }
        Some(a)
    }
}

#[derive(Clone, Debug)]
pub struct RunOut {
    /// Ok((cost, tree hash of the result, result if small enough)) or Err((kind, message))
    pub res: Result<(u64, Hash32, Option<Sx>), (String, String)>,
    pub counts: (u64, u64, u64),
    pub probes: ProbeLog,
    pub entropy: EntropyStats,
    pub setup_failed: bool,
}

impl RunOut {
    pub fn is_alloc_limit_err(&self) -> bool {
        matches!(&self.res, Err((k, _)) if k == "OutOfMemory" || k == "TooManyAtoms" || k == "TooManyPairs")
    }
    pub fn brief(&self) -> String {
        match &self.res {
            Ok((c, h, _)) => format!("Ok(cost {c}, tree {})", hex::encode(&h[..6])),
            Err((k, m)) => format!("Err({k}: {m})"),
        }
    }
    /// comparable summary: cost + result hash, or error kind
    pub fn key(&self) -> String {
        match &self.res {
            Ok((c, h, _)) => format!("ok:{c}:{}", hex::encode(h)),
            Err((k, _)) => format!("err:{k}"),
        }
    }
}

pub fn finish_run(a: &Allocator, r: Result<Reduction, EvalErr>) -> Result<(u64, Hash32, Option<Sx>), (String, String)> {
    match r {
        Ok(Reduction(cost, node)) => match Sx::from_alloc(a, node, 3_000_000) {
            Some(t) => {
                let h = t.tree_hash();
                let keep = if t.nodes.len() <= 20_000 { Some(t) } else { None };
                Ok((cost, h, keep))
            }
            None => Ok((cost, [0xEE; 32], None)),
        },
        Err(e) => Err((err_name(&e).to_string(), e.to_string())),
    }
}

pub fn run_dialect<D: Dialect>(a: &mut Allocator, dialect: &D, prog: &Sx, env: &Sx, max_cost: u64, entropy: &EntropyPlan, probe_cap: usize) -> RunOut {
    let built = prog.to_alloc(a).and_then(|p| env.to_alloc(a).map(|e| (p, e)));
    let (p, e) = match built {
        Ok(x) => x,
        Err(err) => {
            return RunOut {
                res: Err((err_name(&err).to_string(), err.to_string())),
                counts: (a.atom_count() as u64, a.pair_count() as u64, a.heap_size() as u64),
                probes: ProbeLog::default(),
                entropy: EntropyStats::default(),
                setup_failed: true,
            };
        }
    };
    run_nodes(a, dialect, p, e, max_cost, entropy, probe_cap)
}

pub fn run_nodes<D: Dialect>(a: &mut Allocator, dialect: &D, p: NodePtr, e: NodePtr, max_cost: u64, entropy: &EntropyPlan, probe_cap: usize) -> RunOut {
    let eg = EntropyGuard::install(entropy);
    let pg = if probe_cap > 0 { Some(ProbeGuard::install(probe_cap)) } else { None };
    let r = run_program(a, dialect, p, e, max_cost);
    let probes = pg.as_ref().map(|g| g.take()).unwrap_or_default();
    drop(pg);
    let est = eg.stats();
    drop(eg);
    let res = finish_run(a, r);
    RunOut {
        res,
        counts: (a.atom_count() as u64, a.pair_count() as u64, a.heap_size() as u64),
        probes,
        entropy: est,
        setup_failed: false,
    }
}

pub fn run_once(prog: &Sx, env: &Sx, flags: u32, max_cost: u64, ac: &AllocCfg, entropy: &EntropyPlan, probe_cap: usize) -> RunOut {
    let Some(mut a) = ac.build() else {
        return RunOut {
            res: Err(("setup".into(), "ghost pre-load failed".into())),
            counts: (0, 0, 0),
            probes: ProbeLog::default(),
            entropy: EntropyStats::default(),
            setup_failed: true,
        };
    };
    let d = ChiaDialect::new(ClvmFlags::from_bits_truncate(flags));
    run_dialect(&mut a, &d, prog, env, max_cost, entropy, probe_cap)
}

// ---------------------------------------------------------------------------
// guard calibration

/// Replace the placeholder declared costs of generated guards by the measured
/// ones (so that the guards complete), using the guard-enter and step probes.
/// Returns the number of guards calibrated.
pub fn calibrate_guards(g: &mut GenProg, flags: u32) -> u32 {
    let mut done = 0;
    for _ in 0..g.guard_cost_atoms.len() + 1 {
        let out = run_once(&g.prog, &g.env, flags, 0, &AllocCfg::unlimited(), &EntropyPlan::Zero, 400_000);
        let Err((kind, _)) = &out.res else { break };
        if kind != "SoftforkCostMismatch" {
            break;
        }
        // innermost open guard at the time of failure, and the cost reached
        let mut open: Vec<(u64, u64)> = Vec::new(); // (entry cost, declared)
        let mut last_cost = 0u64;
        for ev in &out.probes.events {
            match ev {
                Probe::GuardEnter { cost, expected_cost, .. } => open.push((*cost, expected_cost.wrapping_sub(*cost))),
                Probe::GuardExit { .. } => {
                    open.pop();
                }
                Probe::Step { cost, .. } => last_cost = *cost,
                _ => {}
            }
        }
        if out.probes.dropped > 0 {
            break;
        }
        let Some((entry, declared)) = open.pop() else { break };
        // which placeholder is this?
        let want = int_bytes(declared as i128);
        let Some(idx) = g.guard_cost_atoms.iter().copied().find(|i| matches!(&g.prog.nodes[*i as usize], SxNode::A(b) if *b == want)) else {
            break;
        };
        let true_cost = last_cost.saturating_sub(entry);
        if true_cost == 0 {
            break;
        }
        g.prog.nodes[idx as usize] = SxNode::A(int_bytes(true_cost as i128));
        done += 1;
    }
    done
}

/// perturb the declared cost of some calibrated guards (they must then fail)
pub fn spoil_guard_costs(rng: &mut Rng, g: &mut GenProg, pct: u64) -> u32 {
    let mut n = 0;
    for idx in g.guard_cost_atoms.clone() {
        if rng.below(100) < pct
            && let SxNode::A(b) = &g.prog.nodes[idx as usize]
        {
            let mut v: u128 = 0;
            for x in b {
                v = (v << 8) | *x as u128;
            }
            let nv = if rng.bool() { v + 1 } else { v.saturating_sub(1) };
            g.prog.nodes[idx as usize] = SxNode::A(int_bytes(nv as i128));
            n += 1;
        }
    }
    n
}

pub fn random_flags(rng: &mut Rng, allow_new_cost: bool, allow_strict: bool) -> u32 {
    let mut f = 0u32;
    let opts: &[(u32, u64)] = &[
        (F_CANONICAL_INTS, 15),
        (F_LIMIT_HEAP, 10),
        (F_RELAXED_BLS, 20),
        (F_LIMIT_SOFTFORK, 20),
        (F_LIMITS, 10),
        (F_KECCAK_OUTSIDE, 30),
        (F_DISABLE_OP, 10),
        (F_SHA256_TREE, 40),
        (F_SECP_OPS, 30),
        (F_MALACHITE, 30),
    ];
    for (bit, pct) in opts {
        if rng.below(100) < *pct {
            f |= bit;
        }
    }
    if allow_strict && rng.chance(1, 6) {
        f |= F_NO_UNKNOWN_OPS;
    }
    if allow_new_cost && rng.chance(1, 3) {
        f |= F_NEW_COST_MODEL;
    }
    f
}
