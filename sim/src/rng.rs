//! The only source of choices in a simulated run: SplitMix64 for seed
//! derivation and xoshiro256** for the per-run stream. No OS randomness, no
//! clock, no hash-map iteration order is ever consulted by the simulator.

pub fn splitmix64(state: &mut u64) -> u64 {
    *state = state.wrapping_add(0x9E37_79B9_7F4A_7C15);
    let mut z = *state;
    z = (z ^ (z >> 30)).wrapping_mul(0xBF58_476D_1CE4_E5B9);
    z = (z ^ (z >> 27)).wrapping_mul(0x94D0_49BB_1331_11EB);
    z ^ (z >> 31)
}

/// seed of run `run` of property `prop` under master seed `master`
pub fn run_seed(master: u64, prop: &str, run: u64) -> u64 {
    let mut s = master ^ 0x5EED_C1A5_5EED_C1A5;
    let mut v = splitmix64(&mut s);
    for b in prop.bytes() {
        s ^= (b as u64).wrapping_mul(0x100_0000_01B3);
        v ^= splitmix64(&mut s);
    }
    s ^= run.wrapping_mul(0xD6E8_FEB8_6659_FD93);
    v ^ splitmix64(&mut s)
}

#[derive(Clone, Debug)]
pub struct Rng {
    s: [u64; 4],
}

impl Rng {
    pub fn new(seed: u64) -> Self {
        let mut st = seed;
        let s = [
            splitmix64(&mut st),
            splitmix64(&mut st),
            splitmix64(&mut st),
            splitmix64(&mut st),
        ];
        Rng { s }
    }
    pub fn next_u64(&mut self) -> u64 {
        let result = self.s[1].wrapping_mul(5).rotate_left(7).wrapping_mul(9);
        let t = self.s[1] << 17;
        self.s[2] ^= self.s[0];
        self.s[3] ^= self.s[1];
        self.s[1] ^= self.s[2];
        self.s[0] ^= self.s[3];
        self.s[2] ^= t;
        self.s[3] = self.s[3].rotate_left(45);
        result
    }
    /// uniform in 0..n (n > 0); multiply-shift, bias negligible for our n
    pub fn below(&mut self, n: u64) -> u64 {
        debug_assert!(n > 0);
        ((self.next_u64() as u128 * n as u128) >> 64) as u64
    }
    pub fn range(&mut self, lo: u64, hi_incl: u64) -> u64 {
        lo + self.below(hi_incl - lo + 1)
    }
    pub fn usize(&mut self, n: usize) -> usize {
        self.below(n as u64) as usize
    }
    pub fn chance(&mut self, num: u64, den: u64) -> bool {
        self.below(den) < num
    }
    pub fn bool(&mut self) -> bool {
        self.next_u64() & 1 == 1
    }
    pub fn pick<'a, T>(&mut self, xs: &'a [T]) -> &'a T {
        &xs[self.usize(xs.len())]
    }
    pub fn bytes(&mut self, n: usize) -> Vec<u8> {
        let mut v = Vec::with_capacity(n);
        while v.len() < n {
            let w = self.next_u64().to_le_bytes();
            let k = (n - v.len()).min(8);
            v.extend_from_slice(&w[..k]);
        }
        v
    }
    /// an independent child stream
    pub fn fork(&mut self) -> Rng {
        Rng::new(self.next_u64())
    }
    /// weighted choice: returns index
    pub fn weighted(&mut self, w: &[u32]) -> usize {
        let total: u64 = w.iter().map(|x| *x as u64).sum();
        let mut r = self.below(total.max(1));
        for (i, x) in w.iter().enumerate() {
            if r < *x as u64 {
                return i;
            }
            r -= *x as u64;
        }
        w.len() - 1
    }
}

/// FNV-1a based 64-bit event-log fingerprint (finalised with splitmix)
#[derive(Clone)]
pub struct Fp(u64);
impl Default for Fp {
    fn default() -> Self {
        Fp(0xcbf2_9ce4_8422_2325)
    }
}
impl Fp {
    pub fn bytes(&mut self, b: &[u8]) {
        for x in b {
            self.0 ^= *x as u64;
            self.0 = self.0.wrapping_mul(0x100_0000_01b3);
        }
        self.0 ^= 0xff;
        self.0 = self.0.wrapping_mul(0x100_0000_01b3);
    }
    pub fn u64(&mut self, v: u64) {
        self.bytes(&v.to_le_bytes());
    }
    pub fn str(&mut self, s: &str) {
        self.bytes(s.as_bytes());
    }
    pub fn finish(&self) -> u64 {
        let mut s = self.0;
        splitmix64(&mut s)
    }
}
