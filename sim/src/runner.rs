//! Orchestration: parent / worker processes, crash attribution, replay,
//! minimisation and evidence.

use crate::core::{Ctx, Outcome, Scenario, Tier, Violation};
use crate::rng::{Rng, run_seed};
use serde::{Deserialize, Serialize};
use serde_json::{Value, json};
use std::collections::{BTreeMap, HashSet};
use std::io::Write;
use std::os::unix::fs::FileExt;
use std::panic::{AssertUnwindSafe, catch_unwind};
use std::process::{Child, Command, Stdio};
use std::time::{Duration, Instant};

/// root of the verification tree (evidence, replays, known findings, scratch); the `check`
/// wrapper sets VERIF_DIR to its own directory so that a snapshot of /verif writes into itself
pub fn verif_dir() -> String {
    std::env::var("VERIF_DIR").unwrap_or_else(|_| "/verif".to_string())
}
pub const DEFAULT_SEED: u64 = 20260921;
const WATCHDOG_S: u64 = 900;
const MINIMISE_BUDGET_S: u64 = 30;
const MAX_TRACKED_FPS: usize = 150_000;

#[derive(Clone, Debug)]
pub struct Opts {
    pub id: String,
    pub tier: Tier,
    pub seed: u64,
    pub runs: Option<u64>,
    pub budget_s: Option<u64>,
    pub workers: usize,
    pub evidence: Option<String>,
    // worker-only
    pub first: u64,
    pub stride: u64,
    pub out: Option<String>,
    pub run: u64,
    pub file: Option<String>,
    pub no_evidence: bool,
}

pub fn parse_opts(args: &[String]) -> Opts {
    let mut o = Opts {
        id: String::new(),
        tier: match std::env::var("VERIF_TIER").ok().as_deref() {
            Some("thorough") => Tier::Thorough,
            _ => Tier::Quick,
        },
        seed: std::env::var("VERIF_SEED")
            .ok()
            .and_then(|s| s.trim().parse::<u64>().ok())
            .unwrap_or(DEFAULT_SEED),
        runs: std::env::var("VERIF_RUNS").ok().and_then(|s| s.parse().ok()),
        budget_s: std::env::var("VERIF_BUDGET_S").ok().and_then(|s| s.parse().ok()),
        workers: std::env::var("VERIF_WORKERS")
            .ok()
            .and_then(|s| s.parse().ok())
            .unwrap_or_else(|| {
                std::thread::available_parallelism()
                    .map(|n| n.get())
                    .unwrap_or(4)
                    .min(16)
            }),
        evidence: None,
        first: 0,
        stride: 1,
        out: None,
        run: 0,
        file: None,
        no_evidence: false,
    };
    let mut i = 0;
    let mut positional = Vec::new();
    while i < args.len() {
        let a = &args[i];
        let mut val = || {
            i += 1;
            args.get(i).cloned().unwrap_or_else(|| harness_error("missing option value"))
        };
        match a.as_str() {
            "--tier" => {
                o.tier = match val().as_str() {
                    "thorough" => Tier::Thorough,
                    "quick" => Tier::Quick,
                    _ => harness_error("bad tier"),
                }
            }
            "--seed" => o.seed = val().parse().unwrap_or_else(|_| harness_error("bad seed")),
            "--runs" => o.runs = Some(val().parse().unwrap_or_else(|_| harness_error("bad runs"))),
            "--budget-s" => o.budget_s = Some(val().parse().unwrap_or_else(|_| harness_error("bad budget"))),
            "--workers" => o.workers = val().parse().unwrap_or_else(|_| harness_error("bad workers")),
            "--evidence" => o.evidence = Some(val()),
            "--first" => o.first = val().parse().unwrap_or_else(|_| harness_error("bad first")),
            "--stride" => o.stride = val().parse().unwrap_or_else(|_| harness_error("bad stride")),
            "--out" => o.out = Some(val()),
            "--run" => o.run = val().parse().unwrap_or_else(|_| harness_error("bad run")),
            "--no-evidence" => o.no_evidence = true,
            _ => positional.push(a.clone()),
        }
        i += 1;
    }
    if let Some(p) = positional.first() {
        o.id = p.clone();
    }
    if let Some(p) = positional.get(1) {
        o.file = Some(p.clone());
    }
    o
}

pub fn harness_error(msg: &str) -> ! {
    eprintln!("HARNESS-ERROR: {msg}");
    std::process::exit(2);
}

// ---------------------------------------------------------------------------
// executing one case safely (unwinding panics are caught)

thread_local! {
    static LAST_PANIC: std::cell::RefCell<String> = const { std::cell::RefCell::new(String::new()) };
}

pub fn install_panic_hook() {
    std::panic::set_hook(Box::new(|info| {
        let msg = format!("{info}");
        LAST_PANIC.with(|p| *p.borrow_mut() = msg);
    }));
}

/// a panic whose location is in the simulator's own sources (reported relative to the crate:
/// "src/...") is a harness error; the code under test reports absolute paths (/repo/src/...,
/// the cargo registry, the standard library)
fn is_harness_panic(msg: &str) -> bool {
    msg.contains("/verif/sim/src") || msg.contains("panicked at src/")
}

pub fn execute_caught<S: Scenario>(case: &S::Case, ctx: &Ctx) -> Outcome {
    match catch_unwind(AssertUnwindSafe(|| S::execute(case, ctx))) {
        Ok(o) => o,
        Err(_) => {
            // make sure no simulator hook stays installed
            clvmr::verif::set_entropy(None);
            clvmr::verif::set_probe(None);
            let msg = LAST_PANIC.with(|p| p.borrow().clone());
            let mut o = Outcome::default();
            // panics that originate in the harness itself are harness errors
            let oracle = if is_harness_panic(&msg) { "harness-panic" } else { "no-panic" };
            let short: String = msg.chars().take(400).collect();
            o.violation = Some(Violation::new(oracle, format!("panic: {short}")));
            o
        }
    }
}

pub fn generate_caught<S: Scenario>(seed: u64, tier: Tier, run: u64) -> Result<S::Case, String> {
    let rs = run_seed(seed, S::ID, run);
    match catch_unwind(AssertUnwindSafe(|| {
        let mut rng = Rng::new(rs);
        S::generate(&mut rng, tier, run)
    })) {
        Ok(c) => Ok(c),
        Err(_) => {
            clvmr::verif::set_entropy(None);
            clvmr::verif::set_probe(None);
            Err(LAST_PANIC.with(|p| p.borrow().clone()))
        }
    }
}

// ---------------------------------------------------------------------------
// worker

#[derive(Serialize, Deserialize, Default)]
pub struct WorkerSummary {
    pub runs_done: u64,
    pub evals: u64,
    pub nontrivial_runs: u64,
    pub counters: BTreeMap<String, u64>,
    pub known: BTreeMap<String, u64>,
    pub violations: Vec<FoundViolation>,
    pub samples: Vec<Value>,
    pub fps: Vec<u64>,
    pub all_fp_digest: u64,
    pub first_run_seed: u64,
    pub last_run_seed: u64,
}

#[derive(Serialize, Deserialize, Clone)]
pub struct FoundViolation {
    pub run: u64,
    pub run_seed: u64,
    pub case: Value,
    pub violation: Violation,
}

fn run_dir() -> String {
    let d = format!("{}/target/run", verif_dir());
    let _ = std::fs::create_dir_all(&d);
    d
}

unsafe extern "C" {
    fn mallopt(param: i32, value: i32) -> i32;
    fn setrlimit(resource: i32, rlim: *const [u64; 2]) -> i32;
}

/// Process-level settings for every process that executes cases:
/// * keep freed heap mapped (no brk trimming, high mmap threshold): the
///   allocator's 1 MiB reserve per Allocator would otherwise be returned to
///   and re-faulted from the kernel on every run, which is very slow when 16
///   workers do it at once in this VM;
/// * cap the address space, so that an allocation driven by a declared length
///   (the "over-allocating" fault of C16/C20) fails fast and is reported as a
///   process death instead of exhausting the machine.
pub fn tune_process() {
    const M_TRIM_THRESHOLD: i32 = -1;
    const M_TOP_PAD: i32 = -2;
    const M_MMAP_THRESHOLD: i32 = -3;
    const RLIMIT_AS: i32 = 9;
    unsafe {
        mallopt(M_MMAP_THRESHOLD, 32 << 20);
        mallopt(M_TRIM_THRESHOLD, 1 << 30);
        mallopt(M_TOP_PAD, 16 << 20);
        let lim: [u64; 2] = [12 << 30, 12 << 30];
        setrlimit(RLIMIT_AS, &lim);
    }
}

pub fn worker<S: Scenario>(o: &Opts) {
    tune_process();
    install_panic_hook();
    let mut ctx = Ctx::load(&format!("{}/known_findings.txt", verif_dir()));
    ctx.tier_thorough = o.tier == Tier::Thorough;
    let out = o.out.clone().unwrap_or_else(|| harness_error("worker needs --out"));
    let cur = std::fs::OpenOptions::new()
        .create(true)
        .write(true)
        .truncate(true)
        .open(format!("{out}.cur"))
        .unwrap_or_else(|_| harness_error("cannot open cur file"));
    let total = o.runs.unwrap_or(S::default_runs(o.tier));
    let deadline = o.budget_s.map(|s| Instant::now() + Duration::from_secs(s));
    let mut sum = WorkerSummary::default();
    let mut fps: HashSet<u64> = HashSet::new();
    let mut digest: u64 = 0;
    let mut run = o.first;
    let mut first = true;
    while run < total {
        if let Some(d) = deadline
            && Instant::now() >= d
        {
            break;
        }
        let _ = cur.write_all_at(format!("{run:020}\n").as_bytes(), 0);
        let rs = run_seed(o.seed, S::ID, run);
        if first {
            sum.first_run_seed = rs;
            first = false;
        }
        sum.last_run_seed = rs;
        let case = match generate_caught::<S>(o.seed, o.tier, run) {
            Ok(c) => c,
            Err(msg) => {
                let oracle = if is_harness_panic(&msg) { "harness-panic" } else { "no-panic" };
                sum.violations.push(FoundViolation {
                    run,
                    run_seed: rs,
                    case: json!({"generated_from": {"seed": o.seed, "run": run}}),
                    violation: Violation::new(oracle, format!("panic while generating: {msg}")),
                });
                sum.runs_done += 1;
                run += o.stride;
                continue;
            }
        };
        let outc = execute_caught::<S>(&case, &ctx);
        sum.runs_done += 1;
        sum.evals += outc.evals.max(1);
        for (k, v) in &outc.counters {
            { let e = sum.counters.entry(k.clone()).or_insert(0); *e = e.saturating_add(*v); }
        }
        for k in &outc.known {
            *sum.known.entry(k.clone()).or_insert(0) += 1;
        }
        digest = digest.wrapping_add({ let mut s = outc.fingerprint ^ run.wrapping_mul(0x9E37_79B9_7F4A_7C15); crate::rng::splitmix64(&mut s) });
        if outc.nontrivial {
            sum.nontrivial_runs += 1;
            // exact distinct count over the first MAX_TRACKED non-trivial runs of this worker
            // (a lower bound for the batch; bounded so that huge batches stay cheap)
            if fps.len() < MAX_TRACKED_FPS {
                fps.insert(outc.fingerprint);
            }
            if sum.samples.len() < 2 {
                sum.samples.push(json!({"run": run, "run_seed": rs, "case": S::sample(&case)}));
            }
        }
        if let Some(v) = outc.violation
            && sum.violations.len() < 8
        {
            sum.violations.push(FoundViolation {
                run,
                run_seed: rs,
                case: serde_json::to_value(&case).unwrap_or(Value::Null),
                violation: v,
            });
        }
        run += o.stride;
    }
    sum.fps = fps.into_iter().collect();
    sum.fps.sort_unstable();
    sum.all_fp_digest = digest;
    let s = serde_json::to_vec(&sum).unwrap();
    std::fs::write(&out, s).unwrap_or_else(|_| harness_error("cannot write worker summary"));
    let _ = cur.write_all_at(b"done                 \n", 0);
}

// ---------------------------------------------------------------------------
// single-shot commands used for crash confirmation and replay

pub fn cmd_gen<S: Scenario>(o: &Opts) {
    tune_process();
    install_panic_hook();
    match generate_caught::<S>(o.seed, o.tier, o.run) {
        Ok(c) => println!("{}", serde_json::to_string(&c).unwrap()),
        Err(m) => {
            println!("{}", json!({"generate_panic": m}));
        }
    }
}

pub fn cmd_exec<S: Scenario>(o: &Opts) {
    tune_process();
    install_panic_hook();
    let path = o.file.clone().unwrap_or_else(|| harness_error("exec needs a case file"));
    let txt = std::fs::read_to_string(&path).unwrap_or_else(|_| harness_error("cannot read case file"));
    let case: S::Case = serde_json::from_str(&txt).unwrap_or_else(|e| harness_error(&format!("bad case: {e}")));
    let mut ctx = Ctx::load(&format!("{}/known_findings.txt", verif_dir()));
    ctx.tier_thorough = o.tier == Tier::Thorough;
    let out = execute_caught::<S>(&case, &ctx);
    println!("{}", serde_json::to_string(&out).unwrap());
}

/// run `exe exec <id> <file>` in a child; None = the child died (abort / signal / timeout)
fn exec_in_child(id: &str, case: &Value, timeout_s: u64) -> Option<Outcome> {
    let path = format!("{}/cand-{}.json", run_dir(), std::process::id());
    std::fs::write(&path, serde_json::to_vec(case).unwrap()).ok()?;
    let exe = std::env::current_exe().ok()?;
    let mut child = Command::new(exe)
        .args(["exec", id, &path])
        .stdout(Stdio::piped())
        .stderr(Stdio::null())
        .spawn()
        .ok()?;
    let start = Instant::now();
    loop {
        match child.try_wait() {
            Ok(Some(_)) => break,
            Ok(None) => {
                if start.elapsed() > Duration::from_secs(timeout_s) {
                    let _ = child.kill();
                    let _ = child.wait();
                    return None;
                }
                std::thread::sleep(Duration::from_millis(5));
            }
            Err(_) => return None,
        }
    }
    let outp = child.wait_with_output().ok()?;
    if !outp.status.success() {
        return None;
    }
    serde_json::from_slice::<Outcome>(&outp.stdout).ok()
}

fn crash_violation(what: &str) -> Violation {
    Violation::new("no-abort", format!("worker process died or hung while executing this case ({what})"))
}

// ---------------------------------------------------------------------------
// minimisation

pub fn minimise<S: Scenario>(case: S::Case, v: &Violation, ctx: &Ctx, in_child: bool) -> (S::Case, Violation, u64) {
    let start = Instant::now();
    let mut best = case;
    let mut best_v = v.clone();
    let mut steps = 0u64;
    let same = |a: &Violation, b: &Violation| a.oracle == b.oracle && a.class == b.class;
    'outer: loop {
        if start.elapsed() > Duration::from_secs(MINIMISE_BUDGET_S) {
            break;
        }
        let cands = S::shrink(&best);
        for c in cands {
            if start.elapsed() > Duration::from_secs(MINIMISE_BUDGET_S) {
                break 'outer;
            }
            let res: Option<Violation> = if in_child {
                match exec_in_child(S::ID, &serde_json::to_value(&c).unwrap(), 20) {
                    None => Some(crash_violation("minimised candidate")),
                    Some(o) => o.violation,
                }
            } else {
                execute_caught::<S>(&c, ctx).violation
            };
            if let Some(nv) = res
                && same(&nv, &best_v)
            {
                best = c;
                best_v = nv;
                steps += 1;
                continue 'outer;
            }
        }
        break;
    }
    (best, best_v, steps)
}

// ---------------------------------------------------------------------------
// replay

#[derive(Serialize, Deserialize)]
pub struct ReplayFile {
    pub property: String,
    pub seed: u64,
    pub run: u64,
    pub run_seed: u64,
    pub tier: String,
    pub oracle: String,
    pub class: BTreeMap<String, String>,
    pub detail: String,
    pub minimise_steps: u64,
    pub crash: bool,
    pub case: Value,
    pub original_case: Value,
}

pub fn cmd_replay<S: Scenario>(path: &str, rf: &ReplayFile) -> i32 {
    install_panic_hook();
    let ctx = Ctx::load(&format!("{}/known_findings.txt", verif_dir()));
    let outcome: Option<Outcome> = if rf.crash {
        exec_in_child(S::ID, &rf.case, 60)
    } else {
        let case: S::Case = match serde_json::from_value(rf.case.clone()) {
            Ok(c) => c,
            Err(e) => harness_error(&format!("replay file does not hold a case for {}: {e}", S::ID)),
        };
        Some(execute_caught::<S>(&case, &ctx))
    };
    match outcome {
        None => {
            println!("replayed: process died or hung (oracle no-abort)");
            println!("VIOLATION property={} replay={}", S::ID, path);
            1
        }
        Some(o) => match o.violation {
            Some(v) => {
                println!("replayed: oracle={} class={:?}", v.oracle, v.class);
                println!("detail: {}", v.detail);
                if v.oracle == rf.oracle && v.class == rf.class && v.detail == rf.detail {
                    println!("REPLAY-IDENTICAL");
                } else if v.oracle == rf.oracle {
                    println!("REPLAY-SAME-ORACLE (detail differs)");
                } else {
                    println!("REPLAY-DIFFERENT-ORACLE recorded={}", rf.oracle);
                }
                println!("VIOLATION property={} replay={}", S::ID, path);
                1
            }
            None => {
                for k in &o.known {
                    println!("KNOWN-FINDING: property={} {}", S::ID, k);
                }
                println!("replayed: no violation");
                0
            }
        },
    }
}

// ---------------------------------------------------------------------------
// parent

struct Slot {
    child: Child,
    out: String,
    last_cur: String,
    last_change: Instant,
    k: u64,
}

fn spawn_worker(o: &Opts, k: u64, first: u64, stride: u64, total: u64, budget_s: Option<u64>) -> Slot {
    let out = format!("{}/{}-{}-w{}-{}.json", run_dir(), o.id, std::process::id(), k, first);
    let _ = std::fs::remove_file(&out);
    let exe = std::env::current_exe().unwrap_or_else(|_| harness_error("no current_exe"));
    let mut cmd = Command::new(exe);
    cmd.args([
        "worker",
        &o.id,
        "--tier",
        o.tier.name(),
        "--seed",
        &o.seed.to_string(),
        "--first",
        &first.to_string(),
        "--stride",
        &stride.to_string(),
        "--runs",
        &total.to_string(),
        "--out",
        &out,
    ]);
    if let Some(b) = budget_s {
        cmd.args(["--budget-s", &b.to_string()]);
    }
    cmd.stdout(Stdio::null()).stderr(Stdio::inherit());
    let child = cmd.spawn().unwrap_or_else(|_| harness_error("cannot spawn worker"));
    Slot {
        child,
        out,
        last_cur: String::new(),
        last_change: Instant::now(),
        k,
    }
}

pub fn parent<S: Scenario>(o: &Opts) -> i32 {
    install_panic_hook();
    let t0 = Instant::now();
    let ctx = {
        let mut c = Ctx::load(&format!("{}/known_findings.txt", verif_dir()));
        c.tier_thorough = o.tier == Tier::Thorough;
        c
    };
    let total = o.runs.unwrap_or(S::default_runs(o.tier));
    let budget_s = o.budget_s.or(match o.tier {
        Tier::Quick => Some(240),
        Tier::Thorough => Some(600),
    });
    let n = (o.workers as u64).clamp(1, 64).min(total.max(1));
    println!(
        "clvmsim: property={} tier={} VERIF_SEED={} runs<={} workers={} budget_s={:?}",
        S::ID,
        o.tier.name(),
        o.seed,
        total,
        n,
        budget_s
    );
    let mut slots: Vec<Slot> = (0..n).map(|k| spawn_worker(o, k, k, n, total, budget_s)).collect();
    let mut merged = WorkerSummary::default();
    let mut fps: HashSet<u64> = HashSet::new();
    let mut digest_parts: BTreeMap<(u64, u64), u64> = BTreeMap::new();
    let mut crashes: Vec<(u64, String)> = Vec::new();
    let mut first_seed: Option<u64> = None;

    while !slots.is_empty() {
        std::thread::sleep(Duration::from_millis(20));
        let mut i = 0;
        while i < slots.len() {
            let st = slots[i].child.try_wait().unwrap_or(None);
            // watchdog
            let cur = std::fs::read_to_string(format!("{}.cur", slots[i].out)).unwrap_or_default();
            if cur != slots[i].last_cur {
                slots[i].last_cur = cur.clone();
                slots[i].last_change = Instant::now();
            }
            let mut died: Option<String> = None;
            match st {
                None => {
                    if slots[i].last_change.elapsed() > Duration::from_secs(WATCHDOG_S) {
                        let _ = slots[i].child.kill();
                        let _ = slots[i].child.wait();
                        died = Some(format!("no progress for {WATCHDOG_S}s (killed)"));
                    } else {
                        i += 1;
                        continue;
                    }
                }
                Some(status) => {
                    if status.success() && std::path::Path::new(&slots[i].out).exists() {
                        let txt = std::fs::read(&slots[i].out).unwrap_or_default();
                        let ws: WorkerSummary = serde_json::from_slice(&txt)
                            .unwrap_or_else(|e| harness_error(&format!("bad worker summary: {e}")));
                        merged.runs_done += ws.runs_done;
                        merged.evals += ws.evals;
                        merged.nontrivial_runs += ws.nontrivial_runs;
                        for (k, v) in ws.counters {
                            { let e = merged.counters.entry(k).or_insert(0); *e = e.saturating_add(v); }
                        }
                        for (k, v) in ws.known {
                            *merged.known.entry(k).or_insert(0) += v;
                        }
                        merged.violations.extend(ws.violations);
                        merged.samples.extend(ws.samples);
                        fps.extend(ws.fps);
                        // worker start index identifies the stripe segment
                        let seg_first = slots[i].out.rsplit('-').next().and_then(|s| s.trim_end_matches(".json").parse::<u64>().ok()).unwrap_or(0);
                        digest_parts.insert((slots[i].k, seg_first), ws.all_fp_digest);
                        if slots[i].k == 0 && first_seed.is_none() {
                            first_seed = Some(ws.first_run_seed);
                        }
                        merged.last_run_seed = ws.last_run_seed;
                        let _ = std::fs::remove_file(&slots[i].out);
                        let _ = std::fs::remove_file(format!("{}.cur", slots[i].out));
                        slots.remove(i);
                        continue;
                    } else {
                        died = Some(format!("worker exited with {status}"));
                    }
                }
            }
            if let Some(why) = died {
                let cur_run = slots[i].last_cur.trim().parse::<u64>().ok();
                let k = slots[i].k;
                let _ = std::fs::remove_file(format!("{}.cur", slots[i].out));
                slots.remove(i);
                match cur_run {
                    Some(r) => {
                        crashes.push((r, why));
                        // the lost stripe prefix is re-run from scratch after the crashing run
                        // (runs before r in this stripe are re-executed too: their summary was lost)
                        let stripe_first = k;
                        if crashes.len() <= 4 {
                            // re-run the whole stripe except run r: two workers, before and after
                            // simple and deterministic: restart after r only; runs before r in this
                            // stripe are counted as lost in the evidence
                            let next = r + n;
                            let _ = stripe_first;
                            if next < total {
                                let remaining_budget = budget_s.map(|b| b.saturating_sub(t0.elapsed().as_secs()).max(5));
                                slots.push(spawn_worker(o, k, next, n, total, remaining_budget));
                            }
                        }
                    }
                    None => {
                        harness_error(&format!("worker died before starting a run: {why}"));
                    }
                }
                continue;
            }
        }
    }

    // ----- violations
    let mut exit = 0;
    let mut reported: Vec<Value> = Vec::new();
    let mut harness_problem = false;
    merged.violations.sort_by_key(|v| v.run);

    // crashes first: confirm in a fresh child
    for (r, why) in &crashes {
        let exe = std::env::current_exe().unwrap();
        let gen_out = Command::new(&exe)
            .args(["gen", S::ID, "--tier", o.tier.name(), "--seed", &o.seed.to_string(), "--run", &r.to_string()])
            .stderr(Stdio::null())
            .output();
        let case_v: Value = match gen_out {
            Ok(g) if g.status.success() => serde_json::from_slice(&g.stdout).unwrap_or(json!({"generate_failed": true})),
            _ => json!({"generate_crashed": {"seed": o.seed, "run": r}}),
        };
        let confirmed = if case_v.get("generate_crashed").is_some() {
            true
        } else {
            exec_in_child(S::ID, &case_v, 120).is_none()
        };
        if !confirmed {
            // could not reproduce in isolation: not an alarm. A watchdog kill of a run that
            // completes when re-executed alone is what an overloaded machine looks like (exit 0);
            // a worker that died by itself and cannot be reproduced is a harness problem (exit 2).
            if why.starts_with("no progress") {
                println!("note: run {r} was stopped by the {WATCHDOG_S}s watchdog but completes normally in a fresh process (machine overloaded?)");
            } else {
                eprintln!("HARNESS-WARNING: worker died at run {r} ({why}) but the run passes in a fresh process");
                harness_problem = true;
            }
            continue;
        }
        let v = crash_violation(why);
        let (min_case, min_v, steps) = match serde_json::from_value::<S::Case>(case_v.clone()) {
            Ok(c) => {
                let (mc, mv, st) = minimise::<S>(c, &v, &ctx, true);
                (serde_json::to_value(&mc).unwrap(), mv, st)
            }
            Err(_) => (case_v.clone(), v.clone(), 0),
        };
        let path = write_replay::<S>(o, *r, &min_v, &min_case, &case_v, steps, true);
        println!("violation: run={} oracle={} {}", r, min_v.oracle, min_v.detail);
        println!("VIOLATION property={} replay={}", S::ID, path);
        reported.push(json!({"run": r, "oracle": min_v.oracle, "replay": path}));
        exit = 1;
    }

    // distinct (oracle, class) violations, first occurrence each, at most 3 reports
    let mut seen: HashSet<String> = HashSet::new();
    for fv in &merged.violations {
        let key = format!("{}|{:?}", fv.violation.oracle, fv.violation.class);
        if !seen.insert(key) || reported.len() >= 3 {
            continue;
        }
        if fv.violation.oracle == "harness-panic" {
            eprintln!("HARNESS-ERROR: panic inside the harness at run {}: {}", fv.run, fv.violation.detail);
            harness_problem = true;
            continue;
        }
        let (min_case, min_v, steps) = match serde_json::from_value::<S::Case>(fv.case.clone()) {
            Ok(c) => {
                let (mc, mv, st) = minimise::<S>(c, &fv.violation, &ctx, false);
                (serde_json::to_value(&mc).unwrap(), mv, st)
            }
            Err(_) => (fv.case.clone(), fv.violation.clone(), 0),
        };
        let path = write_replay::<S>(o, fv.run, &min_v, &min_case, &fv.case, steps, false);
        println!("violation: run={} oracle={} class={:?}", fv.run, min_v.oracle, min_v.class);
        println!("  {}", min_v.detail);
        println!("VIOLATION property={} replay={}", S::ID, path);
        reported.push(json!({"run": fv.run, "oracle": min_v.oracle, "class": min_v.class, "replay": path, "minimise_steps": steps}));
        exit = 1;
    }

    for (kid, cnt) in &merged.known {
        if !ctx.known.iter().any(|k| &k.id == kid && k.property == S::ID) {
            continue;
        }
        let what = ctx.known.iter().find(|k| &k.id == kid).map(|k| k.what.clone()).unwrap_or_default();
        println!("KNOWN-FINDING: property={} {} [{}; fired in {} runs]", S::ID, what, kid, cnt);
    }

    // ----- evidence
    let wall = t0.elapsed().as_secs_f64();
    // commutative over runs, so independent of how runs were split over workers
    let mut digest: u64 = 0;
    for d in digest_parts.values() {
        digest = digest.wrapping_add(*d);
    }
    let mut reach_warnings: Vec<String> = Vec::new();
    for p in S::reach_probes() {
        if merged.counters.get(*p).copied().unwrap_or(0) == 0 {
            reach_warnings.push(format!("probe '{p}' never fired in this batch"));
        }
    }
    merged.samples.sort_by_key(|s| s.get("run").and_then(|r| r.as_u64()).unwrap_or(0));
    merged.samples.truncate(4);
    if merged.samples.is_empty() {
        merged.samples.push(json!({"note": "no non-trivial case in this batch"}));
    }
    let sim_time: BTreeMap<&String, &u64> = merged.counters.iter().filter(|(k, _)| k.starts_with("sim.")).collect();
    let faults: BTreeMap<&String, &u64> = merged.counters.iter().filter(|(k, _)| k.starts_with("fault.")).collect();
    let probes: BTreeMap<&String, &u64> = merged
        .counters
        .iter()
        .filter(|(k, _)| !k.starts_with("fault.") && !k.starts_with("sim."))
        .collect();
    let ev = json!({
        "property_id": S::ID,
        "tier": o.tier.name(),
        "seed": o.seed,
        "level": S::LEVEL,
        "coverage": {
            "evaluations": merged.evals.max(merged.runs_done),
            "distinct_nontrivial": fps.len(),
            "rule": S::rule(),
            "samples": merged.samples,
            "simulated_runs": merged.runs_done,
            "nontrivial_runs": merged.nontrivial_runs,
            "runs_per_hour": if wall > 0.0 { (merged.runs_done as f64 / wall * 3600.0) as u64 } else { 0 },
            "executions_per_hour": if wall > 0.0 { (merged.evals as f64 / wall * 3600.0) as u64 } else { 0 },
            "seeds": {"master": o.seed, "first_run_seed": first_seed.unwrap_or(run_seed(o.seed, S::ID, 0)), "derivation": "run_seed = mix(VERIF_SEED, property id, run index); see sim/src/rng.rs"},
            "simulated_time": sim_time,
            "faults_fired": faults,
            "probes": probes,
            "distinct_measure": "distinct 64-bit fingerprints of the per-run event log (inputs, injected faults, observed results) among non-trivial runs; counted exactly over the first 150,000 non-trivial runs of each worker (a lower bound for larger batches)",
            "batch_fingerprint": format!("{digest:016x}"),
            "workers": n,
            "lost_runs_after_worker_death": crashes.len(),
            "reach_warnings": reach_warnings,
            "components_real": S::real_components(),
            "components_stub": S::stub_components(),
            "known_findings_fired": merged.known,
            "violations_reported": reported,
            "exhaustive": false,
        },
        "assumptions": S::assumptions(),
        "wall_s": wall,
        "violations": if exit == 1 { reported.len().max(1) } else { 0 },
    });
    if !o.no_evidence {
        let path = o.evidence.clone().unwrap_or(format!("{}/evidence/{}.json", verif_dir(), S::ID));
        let _ = std::fs::create_dir_all(std::path::Path::new(&path).parent().unwrap());
        let mut f = std::fs::File::create(&path).unwrap_or_else(|_| harness_error("cannot write evidence"));
        f.write_all(serde_json::to_string_pretty(&ev).unwrap().as_bytes()).unwrap();
        f.write_all(b"\n").unwrap();
    }
    println!(
        "clvmsim: property={} runs={} executions={} distinct_nontrivial={} wall={:.1}s batch_fingerprint={:016x} violations={}",
        S::ID,
        merged.runs_done,
        merged.evals,
        fps.len(),
        wall,
        digest,
        reported.len()
    );
    for w in &reach_warnings {
        println!("REACH-WARNING: {w}");
    }
    if exit == 0 && harness_problem {
        return 2;
    }
    exit
}

fn write_replay<S: Scenario>(o: &Opts, run: u64, v: &Violation, case: &Value, original: &Value, steps: u64, crash: bool) -> String {
    let dir = format!("{}/replays/{}", verif_dir(), S::ID);
    let _ = std::fs::create_dir_all(&dir);
    let path = format!("{dir}/{}-{}-{}.json", o.seed, run, v.oracle);
    let rf = ReplayFile {
        property: S::ID.to_string(),
        seed: o.seed,
        run,
        run_seed: run_seed(o.seed, S::ID, run),
        tier: o.tier.name().to_string(),
        oracle: v.oracle.clone(),
        class: v.class.clone(),
        detail: v.detail.clone(),
        minimise_steps: steps,
        crash,
        case: case.clone(),
        original_case: original.clone(),
    };
    std::fs::write(&path, serde_json::to_string_pretty(&rf).unwrap()).unwrap_or_else(|_| harness_error("cannot write replay file"));
    path
}
