//! clvmsim — deterministic simulation with fault injection for clvm_rs.
//! See /verif/DESIGN.md.

mod core;
mod wgen;
mod model;
mod prog;
mod rng;
mod runner;
mod scen;
mod seams;
mod sx;
mod util;

use crate::core::Scenario;
use runner::{Opts, ReplayFile, harness_error, parse_opts};

#[global_allocator]
static GLOBAL: seams::CountingAlloc = seams::CountingAlloc;

macro_rules! dispatch {
    ($id:expr, $f:ident, $($arg:expr),*) => {
        match $id {
            "SELFTEST" => runner::$f::<scen::selftest::SelfTest>($($arg),*),
            "C02" => runner::$f::<scen::c02::C02>($($arg),*),
            "C03" => runner::$f::<scen::interp2::C03>($($arg),*),
            "C04" => runner::$f::<scen::interp::C04>($($arg),*),
            "C08" => runner::$f::<scen::interp::C08>($($arg),*),
            "C25" => runner::$f::<scen::interp2::C25>($($arg),*),
            "C31" => runner::$f::<scen::interp::C31>($($arg),*),
            "C12" => runner::$f::<scen::alloc::C12>($($arg),*),
            "C13" => runner::$f::<scen::alloc::C13>($($arg),*),
            "C14" => runner::$f::<scen::alloc::C14>($($arg),*),
            "C16" => runner::$f::<scen::de::C16>($($arg),*),
            "C20" => runner::$f::<scen::de::C20>($($arg),*),
            "C17" => runner::$f::<scen::ser::C17>($($arg),*),
            "C19" => runner::$f::<scen::ser::C19>($($arg),*),
            "C29" => runner::$f::<scen::c29::C29>($($arg),*),
            other => harness_error(&format!("unknown or unclaimed property '{other}'")),
        }
    };
}

fn main() {
    let args: Vec<String> = std::env::args().skip(1).collect();
    if args.is_empty() {
        harness_error("usage: clvmsim run|worker|gen|exec|replay <ID> [options]");
    }
    let cmd = args[0].clone();
    let o: Opts = parse_opts(&args[1..]);
    let code = match cmd.as_str() {
        "run" => dispatch!(o.id.as_str(), parent, &o),
        "worker" => {
            dispatch!(o.id.as_str(), worker, &o);
            0
        }
        "gen" => {
            dispatch!(o.id.as_str(), cmd_gen, &o);
            0
        }
        "exec" => {
            dispatch!(o.id.as_str(), cmd_exec, &o);
            0
        }
        "replay" => {
            // `replay <file>`: the property is read from the file
            let path = o.id.clone();
            let txt = std::fs::read_to_string(&path).unwrap_or_else(|_| harness_error("cannot read replay file"));
            let rf: ReplayFile = serde_json::from_str(&txt).unwrap_or_else(|e| harness_error(&format!("bad replay file: {e}")));
            dispatch!(rf.property.as_str(), cmd_replay, &path, &rf)
        }
        "ids" => {
            println!("{}", [scen::c29::C29::ID].join(" "));
            0
        }
        _ => harness_error("unknown command"),
    };
    std::process::exit(code);
}
