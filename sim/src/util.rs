//! helpers shared by scenarios

use clvmr::error::EvalErr;

pub fn err_name(e: &EvalErr) -> &'static str {
    match e {
        EvalErr::SerializationError => "SerializationError",
        EvalErr::SerializationBackreferenceError => "SerializationBackreferenceError",
        EvalErr::OutOfMemory => "OutOfMemory",
        EvalErr::PathIntoAtom => "PathIntoAtom",
        EvalErr::TooManyPairs => "TooManyPairs",
        EvalErr::TooManyAtoms => "TooManyAtoms",
        EvalErr::CostExceeded => "CostExceeded",
        EvalErr::UnknownSoftforkExtension => "UnknownSoftforkExtension",
        EvalErr::SoftforkCostMismatch => "SoftforkCostMismatch",
        EvalErr::InternalError(_, _) => "InternalError",
        EvalErr::Raise(_) => "Raise",
        EvalErr::InvalidNilTerminator(_) => "InvalidNilTerminator",
        EvalErr::DivisionByZero(_) => "DivisionByZero",
        EvalErr::ValueStackLimitReached(_) => "ValueStackLimitReached",
        EvalErr::EnvironmentStackLimitReached(_) => "EnvironmentStackLimitReached",
        EvalErr::ShiftTooLarge(_) => "ShiftTooLarge",
        EvalErr::Reserved(_) => "Reserved",
        EvalErr::Invalid(_) => "Invalid",
        EvalErr::Unimplemented(_) => "Unimplemented",
        EvalErr::InvalidOpArg(_, _) => "InvalidOpArg",
        EvalErr::InvalidAllocArg(_, _) => "InvalidAllocArg",
        EvalErr::BLSPairingIdentityFailed(_) => "BLSPairingIdentityFailed",
        EvalErr::BLSVerifyFailed(_) => "BLSVerifyFailed",
        EvalErr::Secp256Failed(_) => "Secp256Failed",
        EvalErr::SoftforkStackDepthExceeded => "SoftforkStackDepthExceeded",
    }
}

pub fn is_alloc_limit(e: &EvalErr) -> bool {
    matches!(e, EvalErr::OutOfMemory | EvalErr::TooManyAtoms | EvalErr::TooManyPairs)
}

pub fn hex_short(b: &[u8]) -> String {
    if b.len() <= 48 {
        hex::encode(b)
    } else {
        format!("{}..({} bytes)", hex::encode(&b[..40]), b.len())
    }
}

/// serde helper: Sx as its JSON form
pub mod sx_serde {
    use crate::sx::Sx;
    use serde::{Deserialize, Deserializer, Serializer, de::Error};
    pub fn serialize<S: Serializer>(t: &Sx, s: S) -> Result<S::Ok, S::Error> {
        serde::Serialize::serialize(&t.to_json(), s)
    }
    pub fn deserialize<'de, D: Deserializer<'de>>(d: D) -> Result<Sx, D::Error> {
        let v = serde_json::Value::deserialize(d)?;
        Sx::from_json(&v).ok_or_else(|| D::Error::custom("bad Sx"))
    }
}

/// serde helper: bytes as hex
pub mod hex_serde {
    use serde::{Deserialize, Deserializer, Serializer, de::Error};
    pub fn serialize<S: Serializer>(b: &Vec<u8>, s: S) -> Result<S::Ok, S::Error> {
        s.serialize_str(&hex::encode(b))
    }
    pub fn deserialize<'de, D: Deserializer<'de>>(d: D) -> Result<Vec<u8>, D::Error> {
        let v = String::deserialize(d)?;
        hex::decode(v).map_err(|_| D::Error::custom("bad hex"))
    }
}
