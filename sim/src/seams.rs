//! Seams owned by the simulator: fault-injecting Read/Write, the entropy
//! source, the probe recorder and the allocation monitor.

use crate::rng::Rng;
use clvmr::verif::{self, Probe, Site};
use serde::{Deserialize, Serialize};
use std::alloc::{GlobalAlloc, Layout, System};
use std::cell::RefCell;
use std::io::{self, ErrorKind, Read, Write};
use std::rc::Rc;
use std::sync::atomic::{AtomicUsize, Ordering};

// ---------------------------------------------------------------------------
// allocation monitor

pub struct CountingAlloc;
static LIVE: AtomicUsize = AtomicUsize::new(0);
static PEAK: AtomicUsize = AtomicUsize::new(0);
static LARGEST: AtomicUsize = AtomicUsize::new(0);

unsafe impl GlobalAlloc for CountingAlloc {
    unsafe fn alloc(&self, l: Layout) -> *mut u8 {
        let p = unsafe { System.alloc(l) };
        if !p.is_null() {
            note_alloc(l.size());
        }
        p
    }
    unsafe fn alloc_zeroed(&self, l: Layout) -> *mut u8 {
        let p = unsafe { System.alloc_zeroed(l) };
        if !p.is_null() {
            note_alloc(l.size());
        }
        p
    }
    unsafe fn dealloc(&self, p: *mut u8, l: Layout) {
        LIVE.fetch_sub(l.size(), Ordering::Relaxed);
        unsafe { System.dealloc(p, l) }
    }
    unsafe fn realloc(&self, p: *mut u8, l: Layout, new: usize) -> *mut u8 {
        let q = unsafe { System.realloc(p, l, new) };
        if !q.is_null() {
            LIVE.fetch_sub(l.size(), Ordering::Relaxed);
            note_alloc(new);
        }
        q
    }
}

#[inline]
fn note_alloc(sz: usize) {
    let live = LIVE.fetch_add(sz, Ordering::Relaxed) + sz;
    if live > PEAK.load(Ordering::Relaxed) {
        PEAK.store(live, Ordering::Relaxed);
    }
    if sz > LARGEST.load(Ordering::Relaxed) {
        LARGEST.store(sz, Ordering::Relaxed);
    }
}

/// Measures allocation relative to the moment it was created.
pub struct MemScope {
    base: usize,
}
impl MemScope {
    pub fn start() -> MemScope {
        let live = LIVE.load(Ordering::Relaxed);
        PEAK.store(live, Ordering::Relaxed);
        LARGEST.store(0, Ordering::Relaxed);
        MemScope { base: live }
    }
    /// peak live bytes above the level at start()
    pub fn peak(&self) -> usize {
        PEAK.load(Ordering::Relaxed).saturating_sub(self.base)
    }
    pub fn largest(&self) -> usize {
        LARGEST.load(Ordering::Relaxed)
    }
}

// ---------------------------------------------------------------------------
// fault-injecting reader / writer

#[derive(Clone, Copy, Debug, PartialEq, Eq, Serialize, Deserialize)]
pub enum IoKind {
    Other,
    UnexpectedEof,
    WouldBlock,
    OutOfMemory,
    StorageFull,
    BrokenPipe,
}
impl IoKind {
    pub fn to_error(self) -> io::Error {
        match self {
            IoKind::Other => io::Error::other("simulated I/O error"),
            IoKind::UnexpectedEof => ErrorKind::UnexpectedEof.into(),
            IoKind::WouldBlock => ErrorKind::WouldBlock.into(),
            IoKind::OutOfMemory => ErrorKind::OutOfMemory.into(),
            IoKind::StorageFull => ErrorKind::StorageFull.into(),
            IoKind::BrokenPipe => ErrorKind::BrokenPipe.into(),
        }
    }
}

/// One decision per read()/write() call; the schedule is explicit so that a
/// replay file reproduces the session exactly.
#[derive(Clone, Copy, Debug, PartialEq, Eq, Serialize, Deserialize)]
pub enum IoStep {
    /// transfer everything requested (as far as data / space allows)
    Full,
    /// transfer at most n bytes (n >= 1)
    Short(u32),
    /// fail this call with ErrorKind::Interrupted (retryable)
    Intr,
    /// writer only: accept 0 bytes
    Zero,
}

/// Hard fault armed at an absolute stream offset: once the stream position
/// reaches `at`, the next call that would transfer byte `at` fails (reader:
/// EOF or error; writer: error). Bytes before `at` are still transferred.
#[derive(Clone, Copy, Debug, PartialEq, Eq, Serialize, Deserialize)]
pub enum HardFault {
    None,
    EofAt(u64),
    ErrAt(u64, IoKind),
}

#[derive(Clone, Debug, Default, PartialEq, Eq, Serialize, Deserialize)]
pub struct IoSchedule {
    pub steps: Vec<IoStep>,
    pub hard: Option<(u64, Option<IoKind>)>, // (offset, None = EOF | Some(kind) = error)
}

impl IoSchedule {
    pub fn clean() -> Self {
        IoSchedule::default()
    }
    /// benign schedule: short transfers and EINTR only
    pub fn benign(rng: &mut Rng, calls: usize, writer: bool) -> Self {
        let mut steps = Vec::with_capacity(calls);
        let mut intr_run = 0;
        for _ in 0..calls {
            let c = rng.below(100);
            let s = if c < 45 {
                IoStep::Full
            } else if c < 80 {
                IoStep::Short(1 + rng.below(7) as u32)
            } else if c < 90 {
                IoStep::Short(1 + rng.below(300) as u32)
            } else if intr_run < 3 {
                IoStep::Intr
            } else {
                IoStep::Short(1)
            };
            if s == IoStep::Intr {
                intr_run += 1
            } else {
                intr_run = 0
            }
            steps.push(s);
        }
        let _ = writer;
        IoSchedule { steps, hard: None }
    }
}

#[derive(Clone, Debug, Default, Serialize, Deserialize, PartialEq, Eq)]
pub struct IoStats {
    pub calls: u64,
    pub full: u64,
    pub short: u64,
    pub intr: u64,
    pub zero: u64,
    pub eof_fired: u64,
    pub err_fired: u64,
    pub bytes: u64,
    /// highest offset (exclusive) the callee ever asked for
    pub max_requested: u64,
}

pub struct SimReader<'a> {
    data: &'a [u8],
    pos: usize,
    sched: &'a IoSchedule,
    step: usize,
    pub stats: IoStats,
}

impl<'a> SimReader<'a> {
    pub fn new(data: &'a [u8], sched: &'a IoSchedule) -> Self {
        SimReader {
            data,
            pos: 0,
            sched,
            step: 0,
            stats: IoStats::default(),
        }
    }
    pub fn consumed(&self) -> usize {
        self.pos
    }
}

impl Read for SimReader<'_> {
    fn read(&mut self, buf: &mut [u8]) -> io::Result<usize> {
        self.stats.calls += 1;
        if buf.is_empty() {
            return Ok(0);
        }
        let want_end = self.pos as u64 + buf.len() as u64;
        if want_end > self.stats.max_requested {
            self.stats.max_requested = want_end;
        }
        let step = self.sched.steps.get(self.step).copied().unwrap_or(IoStep::Full);
        self.step += 1;
        if step == IoStep::Intr {
            self.stats.intr += 1;
            return Err(ErrorKind::Interrupted.into());
        }
        // data visible to the callee: up to the hard fault offset
        let mut avail_end = self.data.len();
        if let Some((at, _)) = self.sched.hard {
            avail_end = avail_end.min(at as usize);
        }
        if self.pos >= avail_end {
            // at the fault point or real end of data
            return match self.sched.hard {
                Some((at, Some(kind))) if self.pos as u64 >= at => {
                    self.stats.err_fired += 1;
                    Err(kind.to_error())
                }
                Some((at, None)) if self.pos as u64 >= at && (at as usize) < self.data.len() => {
                    self.stats.eof_fired += 1;
                    Ok(0)
                }
                _ => Ok(0),
            };
        }
        let mut n = buf.len().min(avail_end - self.pos);
        match step {
            IoStep::Short(k) => {
                let k = (k as usize).max(1);
                if k < n {
                    n = k;
                    self.stats.short += 1;
                } else {
                    self.stats.full += 1;
                }
            }
            _ => self.stats.full += 1,
        }
        buf[..n].copy_from_slice(&self.data[self.pos..self.pos + n]);
        self.pos += n;
        self.stats.bytes += n as u64;
        Ok(n)
    }
}

pub struct SimWriter<'a> {
    pub out: Vec<u8>,
    sched: &'a IoSchedule,
    step: usize,
    pub stats: IoStats,
}

impl<'a> SimWriter<'a> {
    pub fn new(sched: &'a IoSchedule) -> Self {
        SimWriter {
            out: Vec::new(),
            sched,
            step: 0,
            stats: IoStats::default(),
        }
    }
}

impl Write for SimWriter<'_> {
    fn write(&mut self, buf: &[u8]) -> io::Result<usize> {
        self.stats.calls += 1;
        if buf.is_empty() {
            return Ok(0);
        }
        let step = self.sched.steps.get(self.step).copied().unwrap_or(IoStep::Full);
        self.step += 1;
        match step {
            IoStep::Intr => {
                self.stats.intr += 1;
                return Err(ErrorKind::Interrupted.into());
            }
            IoStep::Zero => {
                self.stats.zero += 1;
                return Ok(0);
            }
            _ => {}
        }
        let mut n = buf.len();
        if let Some((at, kind)) = self.sched.hard {
            let room = (at as usize).saturating_sub(self.out.len());
            if room == 0 {
                self.stats.err_fired += 1;
                return Err(kind.unwrap_or(IoKind::StorageFull).to_error());
            }
            n = n.min(room);
        }
        if let IoStep::Short(k) = step {
            let k = (k as usize).max(1);
            if k < n {
                n = k;
                self.stats.short += 1;
            } else {
                self.stats.full += 1;
            }
        } else {
            self.stats.full += 1;
        }
        self.out.extend_from_slice(&buf[..n]);
        self.stats.bytes += n as u64;
        Ok(n)
    }
    fn flush(&mut self) -> io::Result<()> {
        Ok(())
    }
}

// ---------------------------------------------------------------------------
// entropy

/// How the simulator answers the library's requests for randomness.
#[derive(Clone, Debug, PartialEq, Eq, Serialize, Deserialize)]
pub enum EntropyPlan {
    Zero,
    Ones,
    Alternate,
    /// xoshiro stream from this seed
    Prng(u64),
    /// explicit words (cycled)
    Words(Vec<u64>),
    /// salts that make the low bits of (key ^ salt) collide: constant high entropy, low bits fixed
    LowBitsConst(u64),
}

#[derive(Default, Clone, Debug)]
pub struct EntropyStats {
    pub add_split: u64,
    pub sub_split: u64,
    pub hash_salt: u64,
    pub tree_salt: u64,
}

pub struct EntropyGuard {
    stats: Rc<RefCell<EntropyStats>>,
}

impl EntropyGuard {
    pub fn install(plan: &EntropyPlan) -> EntropyGuard {
        let stats = Rc::new(RefCell::new(EntropyStats::default()));
        let st = stats.clone();
        let mut n: u64 = 0;
        let mut rng = match plan {
            EntropyPlan::Prng(s) => Some(Rng::new(*s)),
            _ => None,
        };
        let plan = plan.clone();
        verif::set_entropy(Some(Box::new(move |site: Site| {
            {
                let mut s = st.borrow_mut();
                match site {
                    Site::AddSplit => s.add_split += 1,
                    Site::SubSplit => s.sub_split += 1,
                    Site::HashSalt => s.hash_salt += 1,
                    Site::TreeCacheSalt => s.tree_salt += 1,
                }
            }
            n += 1;
            match &plan {
                EntropyPlan::Zero => 0,
                EntropyPlan::Ones => u64::MAX,
                EntropyPlan::Alternate => {
                    if n % 2 == 0 {
                        u64::MAX
                    } else {
                        0
                    }
                }
                EntropyPlan::Prng(_) => rng.as_mut().unwrap().next_u64(),
                EntropyPlan::Words(w) => {
                    if w.is_empty() {
                        0
                    } else {
                        w[((n - 1) as usize) % w.len()]
                    }
                }
                EntropyPlan::LowBitsConst(c) => *c,
            }
        })));
        EntropyGuard { stats }
    }
    pub fn stats(&self) -> EntropyStats {
        self.stats.borrow().clone()
    }
}
impl Drop for EntropyGuard {
    fn drop(&mut self) {
        verif::set_entropy(None);
    }
}

pub fn entropy_plans(rng: &mut Rng, k: usize) -> Vec<EntropyPlan> {
    let mut v = vec![
        EntropyPlan::Zero,
        EntropyPlan::Ones,
        EntropyPlan::Alternate,
        EntropyPlan::Prng(rng.next_u64()),
    ];
    while v.len() < k {
        v.push(match rng.below(3) {
            0 => EntropyPlan::Prng(rng.next_u64()),
            1 => EntropyPlan::LowBitsConst(rng.next_u64() << 20),
            _ => EntropyPlan::Words((0..1 + rng.below(4)).map(|_| rng.next_u64()).collect()),
        });
    }
    v.truncate(k.max(1));
    v
}

// ---------------------------------------------------------------------------
// probes

#[derive(Default, Clone, Debug)]
pub struct ProbeLog {
    pub events: Vec<Probe>,
    pub dropped: u64,
    pub cap: usize,
}

pub struct ProbeGuard {
    log: Rc<RefCell<ProbeLog>>,
}
impl ProbeGuard {
    /// record up to `cap` events (further ones are counted, not stored)
    pub fn install(cap: usize) -> ProbeGuard {
        let log = Rc::new(RefCell::new(ProbeLog {
            events: Vec::new(),
            dropped: 0,
            cap,
        }));
        let l = log.clone();
        verif::set_probe(Some(Box::new(move |p: Probe| {
            let mut g = l.borrow_mut();
            if g.events.len() < g.cap {
                g.events.push(p);
            } else {
                g.dropped += 1;
            }
        })));
        ProbeGuard { log }
    }
    pub fn take(&self) -> ProbeLog {
        let mut g = self.log.borrow_mut();
        let cap = g.cap;
        let r = std::mem::take(&mut *g);
        g.cap = cap;
        r
    }
}
impl Drop for ProbeGuard {
    fn drop(&mut self) {
        verif::set_probe(None);
    }
}
