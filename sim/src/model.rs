//! Small executable reference models, written from the format documents
//! (docs/compressed-serialization.md, chialisp.com CLVM serialization) and
//! independent of the code under test.

use crate::sx::{Sx, SxNode};

/// classic length prefix for an atom of `len` bytes whose first byte is `b0`
pub fn atom_prefix(len: usize, b0: u8) -> Option<Vec<u8>> {
    let s = len as u64;
    Some(if s == 0 {
        vec![0x80]
    } else if s == 1 && b0 < 0x80 {
        vec![]
    } else if s < 0x40 {
        vec![0x80 | s as u8]
    } else if s < 0x2000 {
        vec![0xc0 | (s >> 8) as u8, s as u8]
    } else if s < 0x10_0000 {
        vec![0xe0 | (s >> 16) as u8, (s >> 8) as u8, s as u8]
    } else if s < 0x800_0000 {
        vec![0xf0 | (s >> 24) as u8, (s >> 16) as u8, (s >> 8) as u8, s as u8]
    } else if s < 0x4_0000_0000 {
        vec![
            0xf8 | (s >> 32) as u8,
            (s >> 24) as u8,
            (s >> 16) as u8,
            (s >> 8) as u8,
            s as u8,
        ]
    } else {
        return None;
    })
}

pub fn ser_atom(out: &mut Vec<u8>, b: &[u8]) {
    if b.is_empty() {
        out.push(0x80);
        return;
    }
    let p = atom_prefix(b.len(), b[0]).expect("atom too large for model");
    out.extend_from_slice(&p);
    out.extend_from_slice(b);
}

pub fn ser_atom_len(b: &[u8]) -> u64 {
    if b.is_empty() {
        1
    } else {
        atom_prefix(b.len(), b[0]).map(|p| p.len()).unwrap_or(6) as u64 + b.len() as u64
    }
}

/// serialized length of the fully expanded classic serialization (saturating)
pub fn ser_len(t: &Sx) -> u64 {
    let mut v = vec![0u64; t.nodes.len()];
    for i in 0..t.nodes.len() {
        v[i] = match &t.nodes[i] {
            SxNode::A(b) => ser_atom_len(b),
            SxNode::P(l, r) => 1u64
                .saturating_add(v[*l as usize])
                .saturating_add(v[*r as usize]),
        };
    }
    v[t.root as usize]
}

#[derive(Clone, Copy, Debug, PartialEq, Eq)]
pub enum TokKind {
    Cons,
    AtomPrefix,
    AtomBody,
    BackRef,
    PathPrefix,
    PathBody,
}

/// (offset, length, kind) of every token of a classic / back-reference stream
#[derive(Clone, Copy, Debug)]
pub struct Tok {
    pub off: usize,
    pub len: usize,
    pub kind: TokKind,
}

/// classic serialization of the expanded tree; also returns token boundaries.
/// Caller must check ser_len() first to bound the output.
pub fn ser_classic(t: &Sx) -> (Vec<u8>, Vec<Tok>) {
    let mut out = Vec::new();
    let mut toks = Vec::new();
    let mut stack = vec![t.root];
    while let Some(i) = stack.pop() {
        match &t.nodes[i as usize] {
            SxNode::A(b) => {
                let start = out.len();
                ser_atom(&mut out, b);
                let plen = out.len() - start - if b.is_empty() { 0 } else { b.len() };
                if plen > 0 {
                    toks.push(Tok {
                        off: start,
                        len: plen,
                        kind: TokKind::AtomPrefix,
                    });
                }
                if !b.is_empty() {
                    toks.push(Tok {
                        off: start + plen,
                        len: b.len(),
                        kind: TokKind::AtomBody,
                    });
                }
            }
            SxNode::P(l, r) => {
                toks.push(Tok {
                    off: out.len(),
                    len: 1,
                    kind: TokKind::Cons,
                });
                out.push(0xff);
                stack.push(*r);
                stack.push(*l);
            }
        }
    }
    (out, toks)
}

#[derive(Debug, Clone, PartialEq, Eq)]
pub enum DecErr {
    Eof,
    BadPrefix,
    TooLarge,
    PathIntoAtom,
    TooManyNodes,
}

/// decode an atom header at `pos` (first byte already known not to be 0xff
/// for classic, and for back-reference streams not 0xfe either).
/// Returns (prefix_len, body_len).
fn atom_header(b: &[u8], pos: usize) -> Result<(usize, u64), DecErr> {
    let b0 = *b.get(pos).ok_or(DecErr::Eof)?;
    if b0 < 0x80 {
        return Ok((0, 1));
    }
    let ones = b0.leading_ones() as usize;
    if ones >= 7 {
        // 0xfe / 0xff are not length prefixes: six-byte and longer prefixes
        // are not part of the format
        return Err(DecErr::BadPrefix);
    }
    let mut size: u64 = (b0 & (0xff >> ones)) as u64;
    for k in 1..ones {
        let x = *b.get(pos + k).ok_or(DecErr::Eof)?;
        size = (size << 8) | x as u64;
    }
    if size >= 0x4_0000_0000 {
        return Err(DecErr::TooLarge);
    }
    Ok((ones, size))
}

#[derive(Clone, Debug)]
pub struct Decoded {
    pub tree: Sx,
    pub consumed: usize,
    pub toks: Vec<Tok>,
    /// true iff every atom used its shortest encoding
    pub canonical_atoms: bool,
}

/// Reference decoder for the classic format (`backrefs == false`) and for the
/// back-reference format (`backrefs == true`).
pub fn decode(b: &[u8], backrefs: bool, max_nodes: usize) -> Result<Decoded, DecErr> {
    enum Op {
        Traverse,
        Cons,
    }
    let mut t = Sx {
        nodes: Vec::new(),
        root: 0,
    };
    let mut toks = Vec::new();
    let mut ops = vec![Op::Traverse];
    let mut stack: Vec<u32> = Vec::new();
    let mut pos = 0usize;
    let mut canonical = true;
    // cached list nodes for stack prefixes: list_cache[k] = node for the list
    // made of stack[0..=k] (bottom k+1 elements), valid while stack[0..=k] unchanged
    let mut list_cache: Vec<Option<u32>> = Vec::new();
    let mut nil_node: Option<u32> = None;

    let read_atom = |b: &[u8], pos: &mut usize, toks: &mut Vec<Tok>, canonical: &mut bool, path: bool|
     -> Result<Vec<u8>, DecErr> {
        let start = *pos;
        let (plen, blen) = atom_header(b, start)?;
        let body_start = start + plen;
        let body_end = body_start as u64 + blen;
        if body_end > b.len() as u64 {
            return Err(DecErr::Eof);
        }
        let body_end = body_end as usize;
        let body = if plen == 0 {
            vec![b[start]]
        } else {
            b[body_start..body_end].to_vec()
        };
        // canonical: the prefix the serializer would choose for this body
        if plen > 0 {
            let want = if body.is_empty() {
                1
            } else {
                atom_prefix(body.len(), body[0]).map(|p| p.len()).unwrap_or(usize::MAX)
            };
            if want != plen {
                *canonical = false;
            }
            toks.push(Tok {
                off: start,
                len: plen,
                kind: if path { TokKind::PathPrefix } else { TokKind::AtomPrefix },
            });
            if blen > 0 {
                toks.push(Tok {
                    off: body_start,
                    len: blen as usize,
                    kind: if path { TokKind::PathBody } else { TokKind::AtomBody },
                });
            }
            *pos = body_end;
        } else {
            toks.push(Tok {
                off: start,
                len: 1,
                kind: if path { TokKind::PathBody } else { TokKind::AtomBody },
            });
            *pos = start + 1;
        }
        Ok(body)
    };

    while let Some(op) = ops.pop() {
        if t.nodes.len() > max_nodes {
            return Err(DecErr::TooManyNodes);
        }
        match op {
            Op::Traverse => {
                let b0 = *b.get(pos).ok_or(DecErr::Eof)?;
                if b0 == 0xff {
                    toks.push(Tok {
                        off: pos,
                        len: 1,
                        kind: TokKind::Cons,
                    });
                    pos += 1;
                    ops.push(Op::Cons);
                    ops.push(Op::Traverse);
                    ops.push(Op::Traverse);
                } else if backrefs && b0 == 0xfe {
                    toks.push(Tok {
                        off: pos,
                        len: 1,
                        kind: TokKind::BackRef,
                    });
                    pos += 1;
                    let path = read_atom(b, &mut pos, &mut toks, &mut canonical, true)?;
                    // walk the path: bits from least significant, last 1 bit terminates
                    let first_nz = path.iter().position(|x| *x != 0);
                    let target: u32 = match first_nz {
                        None => {
                            // path 0: nil
                            *nil_node.get_or_insert_with(|| t.push_atom(&[]))
                        }
                        Some(fnz) => {
                            let total_bits = (path.len() - fnz) * 8 - path[fnz].leading_zeros() as usize;
                            // total_bits includes the terminator bit
                            enum Pos {
                                StackList(usize), // list of stack elements from depth k below top
                                Node(u32),
                            }
                            let mut cur = Pos::StackList(0);
                            for bit in 0..total_bits - 1 {
                                let byte = path[path.len() - 1 - bit / 8];
                                let right = (byte >> (bit % 8)) & 1 == 1;
                                cur = match cur {
                                    Pos::StackList(k) => {
                                        if k >= stack.len() {
                                            return Err(DecErr::PathIntoAtom);
                                        }
                                        if right {
                                            Pos::StackList(k + 1)
                                        } else {
                                            Pos::Node(stack[stack.len() - 1 - k])
                                        }
                                    }
                                    Pos::Node(n) => match t.nodes[n as usize] {
                                        SxNode::A(_) => return Err(DecErr::PathIntoAtom),
                                        SxNode::P(l, r) => Pos::Node(if right { r } else { l }),
                                    },
                                };
                            }
                            match cur {
                                Pos::Node(n) => n,
                                Pos::StackList(k) => {
                                    // materialise (stack[top-k] . (... . nil))
                                    if k >= stack.len() {
                                        *nil_node.get_or_insert_with(|| t.push_atom(&[]))
                                    } else {
                                        let upto = stack.len() - 1 - k; // bottom index range 0..=upto
                                        list_cache.resize(stack.len(), None);
                                        // find deepest cached prefix
                                        let mut start = 0usize;
                                        let mut tail = *nil_node.get_or_insert_with(|| t.push_atom(&[]));
                                        for j in (0..=upto).rev() {
                                            if let Some(c) = list_cache[j] {
                                                start = j + 1;
                                                tail = c;
                                                break;
                                            }
                                        }
                                        for j in start..=upto {
                                            tail = t.push_pair(stack[j], tail);
                                            list_cache[j] = Some(tail);
                                        }
                                        tail
                                    }
                                }
                            }
                        }
                    };
                    stack.push(target);
                    list_cache.truncate(stack.len() - 1);
                } else {
                    let body = read_atom(b, &mut pos, &mut toks, &mut canonical, false)?;
                    let n = t.push_atom(&body);
                    stack.push(n);
                    list_cache.truncate(stack.len() - 1);
                }
            }
            Op::Cons => {
                let r = stack.pop().expect("model stack");
                let l = stack.pop().expect("model stack");
                let n = t.push_pair(l, r);
                stack.push(n);
                list_cache.truncate(stack.len() - 1);
            }
        }
    }
    t.root = stack.pop().expect("model result");
    Ok(Decoded {
        tree: t,
        consumed: pos,
        toks,
        canonical_atoms: canonical,
    })
}

/// minimal two's-complement big-endian encoding of an integer given as
/// sign + magnitude (big-endian magnitude bytes, no leading zeros needed)
pub fn minimal_int_bytes(negative: bool, magnitude_be: &[u8]) -> Vec<u8> {
    // strip leading zeros of magnitude
    let mag: Vec<u8> = {
        let nz = magnitude_be.iter().position(|x| *x != 0);
        match nz {
            None => return vec![],
            Some(i) => magnitude_be[i..].to_vec(),
        }
    };
    if !negative {
        let mut v = mag;
        if v[0] & 0x80 != 0 {
            v.insert(0, 0);
        }
        v
    } else {
        // two's complement of magnitude over len bytes (+1 if needed)
        let mut v = mag.clone();
        // subtract one then invert: -(m) = !(m-1)
        let mut i = v.len();
        loop {
            i -= 1;
            if v[i] == 0 {
                v[i] = 0xff;
            } else {
                v[i] -= 1;
                break;
            }
        }
        for x in v.iter_mut() {
            *x = !*x;
        }
        // v now is two's complement over mag.len() bytes, valid iff top bit set
        if v[0] & 0x80 == 0 {
            v.insert(0, 0xff);
        }
        // strip redundant 0xff
        while v.len() > 1 && v[0] == 0xff && v[1] & 0x80 != 0 {
            v.remove(0);
        }
        v
    }
}

/// the value of a byte string if it is the minimal encoding of an integer in
/// 0..2^26 (the definition of the small-integer view, from the property text)
pub fn small_int_view(b: &[u8]) -> Option<u32> {
    if b.len() > 4 {
        return None;
    }
    let mut v: u64 = 0;
    for x in b {
        v = (v << 8) | *x as u64;
    }
    if !b.is_empty() && b[0] & 0x80 != 0 {
        return None; // negative
    }
    if v >= (1 << 26) {
        return None;
    }
    // minimal encoding of v
    let mut mag = v.to_be_bytes().to_vec();
    while !mag.is_empty() && mag[0] == 0 {
        mag.remove(0);
    }
    let min = minimal_int_bytes(false, &mag);
    if min == b { Some(v as u32) } else { None }
}
