//! Allocator histories against the "heap-only allocator" reference model.
//! One engine, three properties:
//!   C12 counts evolve as in the model (representation independent),
//!   C13 caps are enforced exactly and failed calls are atomic,
//!   C14 nodes are immutable, atom_eq == byte equality, integers canonical.
//!
//! Operations refer to handles / checkpoints through *selectors* that are
//! resolved against the live set at execution time, so every script is legal
//! by construction and stays legal when the minimiser drops operations.

use crate::core::{Ctx, Outcome, Scenario, Tier, Violation};
use crate::model::{minimal_int_bytes, small_int_view};
use crate::rng::{Fp, Rng};
use crate::util::{err_name, hex_serde};
use crate::wgen::{TreeCfg, gen_atom};
use chia_bls::{G1Element, G2Element, SecretKey};
use clvmr::allocator::{Allocator, Checkpoint, MaybeRestore, NodePtr, NodeVisitor, ObjectType, SExp, TransparentCheckpoint};
use clvmr::error::EvalErr;
use num_bigint::{BigInt, Sign};
use serde::{Deserialize, Serialize};
use serde_json::{Value, json};

pub const MAX_ATOMS: u64 = 62_500_000;
pub const MAX_PAIRS: u64 = 62_500_000;

#[derive(Clone, Debug, Serialize, Deserialize, PartialEq, Eq)]
pub enum Op {
    NewAtom(#[serde(with = "hex_serde")] Vec<u8>),
    NewSmall(u32),
    NewU64(u64),
    NewI64(i64),
    /// sign + big-endian magnitude
    NewNumber(bool, #[serde(with = "hex_serde")] Vec<u8>),
    NewMalachite(bool, #[serde(with = "hex_serde")] Vec<u8>),
    NewG1(u8),
    NewG2(u8),
    NewPair(u32, u32),
    /// handle selector (atoms), a, b, valid bounds?
    NewSubstr(u32, u32, u32, bool),
    /// substring [1, len-1) of the selected atom (skipped when shorter than 2)
    SubstrInner(u32),
    /// substr of a pair handle (must fail)
    SubstrOfPair(u32, u32, u32),
    /// atom selectors, size delta (0 = correct size)
    NewConcat(Vec<u32>, i32),
    /// concat with one pair among the atoms (must fail)
    ConcatWithPair(Vec<u32>, u32),
    AddGhostAtom(u64),
    AddGhostPair(u64),
    Checkpoint,
    Restore(u32),
    TCheckpoint,
    TRestore(u32),
    /// transparent checkpoint selector, return-value handle selector
    MaybeRestore(u32, u32),
}

impl Op {
    fn kind(&self) -> &'static str {
        match self {
            Op::NewAtom(_) => "new_atom",
            Op::NewSmall(_) => "new_small_number",
            Op::NewU64(_) => "new_u64",
            Op::NewI64(_) => "new_i64",
            Op::NewNumber(..) => "new_number",
            Op::NewMalachite(..) => "new_malachite_number",
            Op::NewG1(_) => "new_g1",
            Op::NewG2(_) => "new_g2",
            Op::NewPair(..) => "new_pair",
            Op::NewSubstr(..) => "new_substr",
            Op::SubstrInner(_) => "new_substr",
            Op::SubstrOfPair(..) => "new_substr(pair)",
            Op::NewConcat(..) => "new_concat",
            Op::ConcatWithPair(..) => "new_concat(pair)",
            Op::AddGhostAtom(_) => "add_ghost_atom",
            Op::AddGhostPair(_) => "add_ghost_pair",
            Op::Checkpoint => "checkpoint",
            Op::Restore(_) => "restore_checkpoint",
            Op::TCheckpoint => "transparent_checkpoint",
            Op::TRestore(_) => "restore_transparent_checkpoint",
            Op::MaybeRestore(..) => "maybe_restore_with_node",
        }
    }
}

#[derive(Clone, Debug, Serialize, Deserialize)]
pub struct Case {
    pub heap_limit: u64,
    pub ops: Vec<Op>,
    /// read every live handle back after every `readback_every`-th op (1 = every op)
    pub readback_every: u32,
}

#[derive(Clone, Copy, PartialEq, Eq, Debug)]
pub enum Mode {
    C12,
    C13,
    C14,
}

#[derive(Clone)]
enum Content {
    Atom(Vec<u8>),
    Pair(usize, usize),
}

struct Handle {
    ptr: NodePtr,
    content: Content,
    alive: bool,
    /// what the history implies about the atom's storage, by the representation rules of the
    /// pinned tree (inline iff created from bytes / a number that is a canonical small integer,
    /// or as such a slice of an inline atom; concat results, slices of heap atoms, points and
    /// preserved return values live on the heap). Used only to decide whether a heap growth
    /// belongs to the listed finding - never read from the allocator under test.
    inline: bool,
}

enum Cp {
    Full {
        cp: Checkpoint,
        snapshot: (u64, u64, u64),
        born: usize,
        valid: bool,
    },
    Transparent {
        cp: TransparentCheckpoint,
        born: usize,
        valid: bool,
    },
}

fn bls_pool() -> &'static (Vec<G1Element>, Vec<G2Element>) {
    static POOL: std::sync::OnceLock<(Vec<G1Element>, Vec<G2Element>)> = std::sync::OnceLock::new();
    POOL.get_or_init(bls_pool_build)
}

fn bls_pool_build() -> (Vec<G1Element>, Vec<G2Element>) {
    let mut g1 = vec![G1Element::default()];
    let mut g2 = vec![G2Element::default()];
    for i in 0..3u8 {
        let sk = SecretKey::from_seed(&[i + 1; 32]);
        g1.push(sk.public_key());
        g2.push(chia_bls::sign(&sk, [i; 5]));
    }
    (g1, g2)
}

fn bigint(neg: bool, mag: &[u8]) -> BigInt {
    let n = BigInt::from_bytes_be(Sign::Plus, mag);
    if neg { -n } else { n }
}

fn malachite(neg: bool, mag: &[u8]) -> clvmr::number::Malachite {
    let n = clvmr::number::Malachite::from_bytes_be(malachite_bigint::Sign::Plus, mag);
    if neg { -n } else { n }
}

pub struct Trajectory {
    pub heap_after: Vec<u64>,
    pub atoms_after: Vec<u64>,
    pub pairs_after: Vec<u64>,
}

/// Execute a history. `mode` selects which property's oracles are reported.
pub fn run_history(case: &Case, ctx: &Ctx, mode: Mode) -> (Outcome, Trajectory) {
    let mut out = Outcome::default();
    let mut fp = Fp::default();
    let mut traj = Trajectory {
        heap_after: vec![],
        atoms_after: vec![],
        pairs_after: vec![],
    };
    let limit = case.heap_limit.min(u32::MAX as u64);
    let mut a = Allocator::new_limited(limit as usize);
    // reference model
    let (mut m_atoms, mut m_pairs, mut m_heap): (u64, u64, u64) = (2, 0, 1);
    let mut hs: Vec<Handle> = Vec::new();
    let mut cps: Vec<Cp> = Vec::new();
    let (g1s, g2s) = bls_pool();
    let substr_copy_known = ctx
        .known
        .iter()
        .find(|k| k.status == "open" && k.property == "C12" && k.oracle == "counts-match-model" && k.class.get("op").map(|s| s.as_str()) == Some("new_substr"))
        .cloned();

    fp.u64(limit);
    let prop = match mode {
        Mode::C12 => "C12",
        Mode::C13 => "C13",
        Mode::C14 => "C14",
    };

    macro_rules! live_atoms {
        () => {
            hs.iter().enumerate().filter(|(_, h)| h.alive && matches!(h.content, Content::Atom(_))).map(|(i, _)| i).collect::<Vec<usize>>()
        };
    }
    macro_rules! live_all {
        () => {
            hs.iter().enumerate().filter(|(_, h)| h.alive).map(|(i, _)| i).collect::<Vec<usize>>()
        };
    }
    macro_rules! live_pairs {
        () => {
            hs.iter().enumerate().filter(|(_, h)| h.alive && matches!(h.content, Content::Pair(..))).map(|(i, _)| i).collect::<Vec<usize>>()
        };
    }

    let mut kinds_seen: Vec<&'static str> = Vec::new();

    for (step, op) in case.ops.iter().enumerate() {
        let before = (a.atom_count() as u64, a.pair_count() as u64, a.heap_size() as u64);
        let kind = op.kind();
        if !kinds_seen.contains(&kind) {
            kinds_seen.push(kind);
        }
        fp.str(kind);
        // expected deltas by the model: (atoms, pairs, heap); None = op changes no counts by itself
        // result: Ok(Some(new handle content, ptr)) / Ok(None) / Err
        enum Res {
            NewHandle(NodePtr, Content, bool),
            Nothing,
            Failed(EvalErr),
            Skipped,
        }
        let mut delta: (u64, u64, u64) = (0, 0, 0);
        // whether failure is expected for a reason other than caps
        let mut expect_arg_error = false;
        // explicit "counts := snapshot" transition
        let mut set_counts: Option<(u64, u64, u64)> = None;
        let mut known_class_hit = false;
        // this call has the shape of the listed finding (by the history, not by what the allocator did)
        let mut shape_hit = false;

        let res: Res = match op {
            Op::NewAtom(b) => {
                delta = (1, 0, b.len() as u64);
                match a.new_atom(b) {
                    Ok(p) => Res::NewHandle(p, Content::Atom(b.clone()), small_int_view(b).is_some()),
                    Err(e) => Res::Failed(e),
                }
            }
            Op::NewSmall(v) => {
                let v = *v & ((1 << 26) - 1);
                let bytes = minimal_int_bytes(false, &v.to_be_bytes());
                delta = (1, 0, bytes.len() as u64);
                match a.new_small_number(v) {
                    Ok(p) => Res::NewHandle(p, Content::Atom(bytes), true),
                    Err(e) => Res::Failed(e),
                }
            }
            Op::NewU64(v) => {
                let bytes = minimal_int_bytes(false, &v.to_be_bytes());
                delta = (1, 0, bytes.len() as u64);
                match a.new_u64(*v) {
                    Ok(p) => {
                        let inl = small_int_view(&bytes).is_some();
                        Res::NewHandle(p, Content::Atom(bytes), inl)
                    }
                    Err(e) => Res::Failed(e),
                }
            }
            Op::NewI64(v) => {
                let bytes = minimal_int_bytes(*v < 0, &v.unsigned_abs().to_be_bytes());
                delta = (1, 0, bytes.len() as u64);
                match a.new_i64(*v) {
                    Ok(p) => {
                        let inl = small_int_view(&bytes).is_some();
                        Res::NewHandle(p, Content::Atom(bytes), inl)
                    }
                    Err(e) => Res::Failed(e),
                }
            }
            Op::NewNumber(neg, mag) => {
                let bytes = minimal_int_bytes(*neg, mag);
                delta = (1, 0, bytes.len() as u64);
                match a.new_number(bigint(*neg, mag)) {
                    Ok(p) => {
                        let inl = small_int_view(&bytes).is_some();
                        Res::NewHandle(p, Content::Atom(bytes), inl)
                    }
                    Err(e) => Res::Failed(e),
                }
            }
            Op::NewMalachite(neg, mag) => {
                let bytes = minimal_int_bytes(*neg, mag);
                delta = (1, 0, bytes.len() as u64);
                match a.new_malachite_number(malachite(*neg, mag)) {
                    Ok(p) => {
                        let inl = small_int_view(&bytes).is_some();
                        Res::NewHandle(p, Content::Atom(bytes), inl)
                    }
                    Err(e) => Res::Failed(e),
                }
            }
            Op::NewG1(i) => {
                let g = &g1s[*i as usize % g1s.len()];
                delta = (1, 0, 48);
                match a.new_g1(g.clone()) {
                    Ok(p) => Res::NewHandle(p, Content::Atom(g.to_bytes().to_vec()), false),
                    Err(e) => Res::Failed(e),
                }
            }
            Op::NewG2(i) => {
                let g = &g2s[*i as usize % g2s.len()];
                delta = (1, 0, 96);
                match a.new_g2(g.clone()) {
                    Ok(p) => Res::NewHandle(p, Content::Atom(g.to_bytes().to_vec()), false),
                    Err(e) => Res::Failed(e),
                }
            }
            Op::NewPair(l, r) => {
                let live = live_all!();
                if live.is_empty() {
                    Res::Skipped
                } else {
                    let li = live[*l as usize % live.len()];
                    let ri = live[*r as usize % live.len()];
                    delta = (0, 1, 0);
                    match a.new_pair(hs[li].ptr, hs[ri].ptr) {
                        Ok(p) => Res::NewHandle(p, Content::Pair(li, ri), false),
                        Err(e) => Res::Failed(e),
                    }
                }
            }
            Op::NewSubstr(h, x, y, valid) => {
                let live = live_atoms!();
                if live.is_empty() {
                    Res::Skipped
                } else {
                    let hi = live[*h as usize % live.len()];
                    let Content::Atom(bytes) = hs[hi].content.clone() else { unreachable!() };
                    let len = bytes.len() as u32;
                    let (s, e) = if *valid {
                        let s = *x % (len + 1);
                        let e = s + *y % (len - s + 1);
                        (s, e)
                    } else {
                        expect_arg_error = true;
                        match *x % 3 {
                            0 => (len + 1 + *y % 5, len + 1 + *y % 5),
                            1 => (0, len + 1 + *y % 5),
                            _ => {
                                if len == 0 {
                                    (1, 0)
                                } else {
                                    (1 + *y % len, *y % len)
                                }
                            }
                        }
                    };
                    delta = (1, 0, 0);
                    let parent_small = hs[hi].inline;
                    match a.new_substr(hs[hi].ptr, s, e) {
                        Ok(p) => {
                            let slice = bytes[s as usize..e as usize].to_vec();
                            // the one listed deviation: slice of an inline atom that is not itself
                            // a canonical small integer is copied to the heap
                            if parent_small && small_int_view(&slice).is_none() && !slice.is_empty() {
                                out.count("shape.substr_of_inline_noncanonical", 1);
                                shape_hit = true;
                                if substr_copy_known.is_some() {
                                    delta = (1, 0, slice.len() as u64);
                                    known_class_hit = true;
                                }
                            }
                            let inl = parent_small && small_int_view(&slice).is_some();
                            Res::NewHandle(p, Content::Atom(slice), inl)
                        }
                        Err(e2) => {
                            // predicted heap for the listed deviation (so that a cap hit there is expected)
                            if *valid && parent_small && substr_copy_known.is_some() {
                                let slice = &bytes[s as usize..e as usize];
                                if small_int_view(slice).is_none() && !slice.is_empty() {
                                    delta = (1, 0, slice.len() as u64);
                                }
                            }
                            Res::Failed(e2)
                        }
                    }
                }
            }
            Op::SubstrInner(h) => {
                let live = live_atoms!();
                if live.is_empty() {
                    Res::Skipped
                } else {
                    let hi = live[*h as usize % live.len()];
                    let Content::Atom(bytes) = hs[hi].content.clone() else { unreachable!() };
                    if bytes.len() < 2 {
                        Res::Skipped
                    } else {
                        delta = (1, 0, 0);
                        let parent_small = hs[hi].inline;
                        let slice = bytes[1..bytes.len() - 1].to_vec();
                        let shape = parent_small && small_int_view(&slice).is_none() && !slice.is_empty();
                        if shape && substr_copy_known.is_some() {
                            delta = (1, 0, slice.len() as u64);
                        }
                        match a.new_substr(hs[hi].ptr, 1, bytes.len() as u32 - 1) {
                            Ok(p) => {
                                if shape {
                                    shape_hit = true;
                                    out.count("shape.substr_of_inline_noncanonical", 1);
                                    known_class_hit = substr_copy_known.is_some();
                                }
                                let inl = parent_small && small_int_view(&slice).is_some();
                                Res::NewHandle(p, Content::Atom(slice), inl)
                            }
                            Err(e) => Res::Failed(e),
                        }
                    }
                }
            }
            Op::SubstrOfPair(h, s, e) => {
                let live = live_pairs!();
                if live.is_empty() {
                    Res::Skipped
                } else {
                    let hi = live[*h as usize % live.len()];
                    expect_arg_error = true;
                    delta = (1, 0, 0);
                    match a.new_substr(hs[hi].ptr, *s % 4, *e % 4) {
                        Ok(p) => Res::NewHandle(p, Content::Atom(vec![]), false),
                        Err(e2) => Res::Failed(e2),
                    }
                }
            }
            Op::NewConcat(sel, size_delta) => {
                let live = live_atoms!();
                if live.is_empty() && !sel.is_empty() {
                    Res::Skipped
                } else {
                    let idx: Vec<usize> = sel.iter().map(|s| live[*s as usize % live.len()]).collect();
                    let mut bytes = Vec::new();
                    for i in &idx {
                        if let Content::Atom(b) = &hs[*i].content {
                            bytes.extend_from_slice(b);
                        }
                    }
                    let size = (bytes.len() as i64 + *size_delta as i64).max(0) as usize;
                    if size != bytes.len() {
                        expect_arg_error = true;
                    }
                    delta = (1, 0, size as u64);
                    let ptrs: Vec<NodePtr> = idx.iter().map(|i| hs[*i].ptr).collect();
                    // no operand: nil; one operand: the operand itself; otherwise a fresh heap atom
                    let inl = match idx.len() {
                        0 => true,
                        1 => hs[idx[0]].inline,
                        _ => false,
                    };
                    match a.new_concat(size, &ptrs) {
                        Ok(p) => Res::NewHandle(p, Content::Atom(bytes), inl),
                        Err(e) => Res::Failed(e),
                    }
                }
            }
            Op::ConcatWithPair(sel, psel) => {
                let live = live_atoms!();
                let lp = live_pairs!();
                if live.is_empty() || lp.is_empty() || sel.is_empty() {
                    Res::Skipped
                } else {
                    let mut ptrs: Vec<NodePtr> = Vec::new();
                    let mut size = 0usize;
                    for s in sel {
                        let i = live[*s as usize % live.len()];
                        ptrs.push(hs[i].ptr);
                        if let Content::Atom(b) = &hs[i].content {
                            size += b.len();
                        }
                    }
                    let pi = lp[*psel as usize % lp.len()];
                    let pos = *psel as usize % (ptrs.len() + 1);
                    ptrs.insert(pos, hs[pi].ptr);
                    expect_arg_error = true;
                    delta = (1, 0, size as u64);
                    match a.new_concat(size, &ptrs) {
                        Ok(p) => Res::NewHandle(p, Content::Atom(vec![]), false),
                        Err(e) => Res::Failed(e),
                    }
                }
            }
            Op::AddGhostAtom(n) => {
                delta = (*n, 0, 0);
                match a.add_ghost_atom(*n as usize) {
                    Ok(()) => Res::Nothing,
                    Err(e) => Res::Failed(e),
                }
            }
            Op::AddGhostPair(n) => {
                delta = (0, *n, 0);
                match a.add_ghost_pair(*n as usize) {
                    Ok(()) => Res::Nothing,
                    Err(e) => Res::Failed(e),
                }
            }
            Op::Checkpoint => {
                cps.push(Cp::Full {
                    cp: a.checkpoint(),
                    snapshot: (m_atoms, m_pairs, m_heap),
                    born: hs.len(),
                    valid: true,
                });
                Res::Nothing
            }
            Op::TCheckpoint => {
                cps.push(Cp::Transparent {
                    cp: a.transparent_checkpoint(),
                    born: hs.len(),
                    valid: true,
                });
                Res::Nothing
            }
            Op::Restore(sel) => {
                let valid: Vec<usize> = cps.iter().enumerate().filter(|(_, c)| matches!(c, Cp::Full { valid: true, .. })).map(|(i, _)| i).collect();
                if valid.is_empty() {
                    Res::Skipped
                } else {
                    let ci = valid[*sel as usize % valid.len()];
                    let Cp::Full { cp, snapshot, born, .. } = &cps[ci] else { unreachable!() };
                    a.restore_checkpoint(cp);
                    set_counts = Some(*snapshot);
                    let born = *born;
                    for h in hs.iter_mut().skip(born) {
                        h.alive = false;
                    }
                    invalidate_after(&mut cps, ci);
                    out.count("fault.full_restore", 1);
                    Res::Nothing
                }
            }
            Op::TRestore(sel) => {
                let valid: Vec<usize> = cps.iter().enumerate().filter(|(_, c)| matches!(c, Cp::Transparent { valid: true, .. })).map(|(i, _)| i).collect();
                if valid.is_empty() {
                    Res::Skipped
                } else {
                    let ci = valid[*sel as usize % valid.len()];
                    let Cp::Transparent { cp, born, .. } = &cps[ci] else { unreachable!() };
                    a.restore_transparent_checkpoint(cp);
                    let born = *born;
                    for h in hs.iter_mut().skip(born) {
                        h.alive = false;
                    }
                    invalidate_after(&mut cps, ci);
                    out.count("fault.transparent_restore", 1);
                    Res::Nothing
                }
            }
            Op::MaybeRestore(sel, hsel) => {
                let valid: Vec<usize> = cps.iter().enumerate().filter(|(_, c)| matches!(c, Cp::Transparent { valid: true, .. })).map(|(i, _)| i).collect();
                let live = live_all!();
                if valid.is_empty() || live.is_empty() {
                    Res::Skipped
                } else {
                    // (selectors close to u32::MAX count from the end: MAX = the newest)
                    let from_end = |sel: u32, n: usize| -> usize {
                        let back = (u32::MAX - sel) as usize;
                        if back < 16 { n - 1 - back.min(n - 1) } else { sel as usize % n }
                    };
                    let ci = valid[from_end(*sel, valid.len())];
                    let ri = live[from_end(*hsel, live.len())];
                    let Cp::Transparent { cp, born, .. } = &cps[ci] else { unreachable!() };
                    let born = *born;
                    let ret_ptr = hs[ri].ptr;
                    let ret_content = hs[ri].content.clone();
                    match a.maybe_restore_with_node(cp, ret_ptr) {
                        Ok(MaybeRestore::Aborted) => {
                            out.count("fault.gc_aborted", 1);
                            Res::Nothing
                        }
                        Ok(MaybeRestore::NoReplace) => {
                            out.count("fault.gc_noreplace", 1);
                            for (i, h) in hs.iter_mut().enumerate().skip(born) {
                                if i != ri {
                                    h.alive = false;
                                }
                            }
                            // a pair return value that survives must not reference dead children
                            invalidate_after(&mut cps, ci);
                            Res::Nothing
                        }
                        Ok(MaybeRestore::Replace(n)) => {
                            out.count("fault.gc_replace", 1);
                            for h in hs.iter_mut().skip(born) {
                                h.alive = false;
                            }
                            hs[ri].alive = false;
                            invalidate_after(&mut cps, ci);
                            // (a preserved atom is re-created on the heap)
                            Res::NewHandle(n, ret_content, false)
                        }
                        Err(e) => Res::Failed(e),
                    }
                }
            }
        };

        // ---- cap prediction (C13) --------------------------------------------------
        let creates_counts = !matches!(op, Op::Checkpoint | Op::TCheckpoint | Op::Restore(_) | Op::TRestore(_) | Op::MaybeRestore(..));
        let mut exceeded: Vec<&'static str> = Vec::new();
        if creates_counts && !matches!(res, Res::Skipped) {
            if before.0 + delta.0 > MAX_ATOMS {
                exceeded.push("TooManyAtoms");
            }
            if before.1 + delta.1 > MAX_PAIRS {
                exceeded.push("TooManyPairs");
            }
            if before.2 + delta.2 > limit {
                exceeded.push("OutOfMemory");
            }
        }

        let after = (a.atom_count() as u64, a.pair_count() as u64, a.heap_size() as u64);
        fp.u64(after.0);
        fp.u64(after.1);
        fp.u64(after.2);

        let opclass = |v: Violation| v.with("op", kind);

        match res {
            Res::Skipped => {
                out.count("op.skipped", 1);
            }
            Res::Failed(e) => {
                let en = err_name(&e);
                fp.str(en);
                out.count(&format!("fault.op_failed.{en}"), 1);
                if matches!(e, EvalErr::InternalError(..)) && !expect_arg_error {
                    // an internal error from a legal call is wrong under every property
                    out.fail(opclass(Violation::new("no-internal-error", format!("step {step} {kind}: unexpected {e}"))));
                }
                // C12/C13: failed call leaves counts unchanged
                if after != before && matches!(mode, Mode::C12 | Mode::C13) {
                    out.fail(opclass(Violation::new(
                        "failed-op-leaves-counts",
                        format!("step {step} {kind} failed with {en} but counts changed {before:?} -> {after:?}"),
                    )));
                }
                if mode == Mode::C13 {
                    let cap_err = matches!(e, EvalErr::OutOfMemory | EvalErr::TooManyAtoms | EvalErr::TooManyPairs);
                    if cap_err {
                        if !exceeded.contains(&en) {
                            out.fail(
                                opclass(Violation::new(
                                    "cap-error-only-when-exceeded",
                                    format!("step {step} {kind}: failed with {en} but completing it would give counts {:?} (caps: atoms/pairs {MAX_ATOMS}, heap {limit}); exceeded set {exceeded:?}", (before.0 + delta.0, before.1 + delta.1, before.2 + delta.2)),
                                ))
                                .with("err", en),
                            );
                        } else {
                            out.count(&format!("fault.cap_hit.{en}"), 1);
                        }
                    } else if !exceeded.is_empty() && !expect_arg_error {
                        out.fail(opclass(Violation::new(
                            "cap-exceeded-gives-cap-error",
                            format!("step {step} {kind}: would exceed {exceeded:?} but failed with {en}"),
                        )));
                    }
                }
                // contents unchanged after a failure: read back everything (C13, C14)
                if matches!(mode, Mode::C13 | Mode::C14)
                    && let Some(v) = read_back(&a, &hs, step, kind, true)
                {
                    if mode == Mode::C13 {
                        out.fail(opclass(Violation::new("failed-op-leaves-contents", v.detail)));
                    } else {
                        out.fail(v);
                    }
                }
            }
            Res::Nothing | Res::NewHandle(..) => {
                if let Res::NewHandle(p, Content::Atom(_), inl) = &res
                    && (p.object_type() == ObjectType::SmallAtom) != *inl
                {
                    // diagnostic only: the representation is internal, not part of any property
                    out.count("shape.repr_differs_from_history_rules", 1);
                }
                if mode == Mode::C13 && !exceeded.is_empty() && creates_counts {
                    let mut v = opclass(Violation::new(
                        "cap-exceeded-must-fail",
                        format!("step {step} {kind}: succeeded although completing it exceeds {exceeded:?}: counts {before:?} -> {after:?}, heap limit {limit}"),
                    ));
                    if known_class_hit {
                        v = v.with("parent", "SmallAtom").with("slice", "non-canonical-small");
                    }
                    out.fail(v);
                }
                if let Some(s) = set_counts {
                    m_atoms = s.0;
                    m_pairs = s.1;
                    m_heap = s.2;
                } else if creates_counts {
                    m_atoms += delta.0;
                    m_pairs += delta.1;
                    m_heap += delta.2;
                }
                if let Res::NewHandle(p, c, inline) = res {
                    hs.push(Handle {
                        ptr: p,
                        content: c,
                        alive: true,
                        inline,
                    });
                }
                if known_class_hit && mode == Mode::C12 && let Some(k) = &substr_copy_known {
                    if !out.known.contains(&k.id) {
                        out.known.push(k.id.clone());
                    }
                }
            }
        }

        // ---- C12: counts equal the model after every operation ------------------------
        if (m_atoms, m_pairs, m_heap) != after {
            // C13 needs this as well: "fails exactly when completing it would exceed the cap" is
            // meaningless if the counters themselves drift from what was allocated
            if mode == Mode::C12 || mode == Mode::C13 {
                let mut v = opclass(Violation::new(
                    "counts-match-model",
                    format!("step {step} {kind}: allocator reports (atoms,pairs,heap)={after:?}, reference model {:?} (before the call {before:?})", (m_atoms, m_pairs, m_heap)),
                ));
                if matches!(op, Op::NewSubstr(..) | Op::SubstrInner(_)) {
                    // classify the shape so that the listed finding is matched narrowly
                    let d_heap = after.2 as i64 - m_heap as i64;
                    if after.0 == m_atoms && after.1 == m_pairs && (1..=3).contains(&d_heap) && shape_hit {
                        v = v.with("parent", "SmallAtom").with("slice", "non-canonical-small");
                    }
                }
                out.fail(v);
            }
            // keep going from the real state so that one discrepancy is reported once
            m_atoms = after.0;
            m_pairs = after.1;
            m_heap = after.2;
        }
        // C13 invariants
        // (a counter that was already above its cap before the call - possible only for the
        // starting state of new_limited(0), whose heap size is 1 - is not attributed to the call)
        if mode == Mode::C13 && ((after.0 > MAX_ATOMS && after.0 > before.0) || (after.1 > MAX_PAIRS && after.1 > before.1) || (after.2 > limit && after.2 > before.2)) {
            let mut v = opclass(Violation::new(
                "counter-within-cap",
                format!("step {step} {kind}: counts {after:?} exceed a cap (atoms/pairs {MAX_ATOMS}, heap limit {limit})"),
            ));
            if known_class_hit || shape_hit {
                v = v.with("parent", "SmallAtom").with("slice", "non-canonical-small");
            }
            out.fail(v);
        }
        // C14 read-back
        if mode == Mode::C14 && (case.readback_every <= 1 || (step as u32 + 1) % case.readback_every == 0 || step + 1 == case.ops.len()) {
            if let Some(v) = read_back(&a, &hs, step, kind, false) {
                out.fail(v);
            }
            out.count("sim.readbacks", 1);
        }
        traj.heap_after.push(after.2);
        traj.atoms_after.push(after.0);
        traj.pairs_after.push(after.1);
        out.evals += 1;
        if out.violation.is_some() {
            break;
        }
    }
    if mode == Mode::C14 && out.violation.is_none() {
        if let Some(v) = atom_eq_check(&a, &hs) {
            out.fail(v);
        }
    }
    if mode != Mode::C14 && out.violation.is_none() && !case.ops.is_empty() {
        // final read-back in every mode is cheap and keeps the engine honest
        if let Some(v) = read_back(&a, &hs, case.ops.len(), "end", false)
            && mode == Mode::C13
        {
            let _ = v; // contents are C14's subject; C13 only checks them after failures
        }
    }
    let _ = prop;
    out.count("sim.ops", case.ops.len() as u64);
    out.nontrivial = case.ops.len() >= 3 && kinds_seen.len() >= 2;
    out.fingerprint = fp.finish();
    (out, traj)
}

fn invalidate_after(cps: &mut [Cp], ci: usize) {
    for c in cps.iter_mut().skip(ci + 1) {
        match c {
            Cp::Full { valid, .. } => *valid = false,
            Cp::Transparent { valid, .. } => *valid = false,
        }
    }
}

/// compare every live handle with the model's record of it
fn read_back(a: &Allocator, hs: &[Handle], step: usize, kind: &str, _after_failure: bool) -> Option<Violation> {
    for (i, h) in hs.iter().enumerate() {
        if !h.alive {
            continue;
        }
        match &h.content {
            Content::Atom(bytes) => {
                if a.sexp(h.ptr) != SExp::Atom {
                    return Some(Violation::new("node-immutable", format!("after step {step} ({kind}): handle {i} was an atom, now reads as a pair")).with("view", "sexp"));
                }
                let got = a.atom(h.ptr);
                if got.as_ref() != bytes.as_slice() {
                    return Some(
                        Violation::new(
                            "node-immutable",
                            format!("after step {step} ({kind}): atom handle {i} reads {} but was created as {}", crate::util::hex_short(got.as_ref()), crate::util::hex_short(bytes)),
                        )
                        .with("view", "atom"),
                    );
                }
                if a.atom_len(h.ptr) != bytes.len() {
                    return Some(Violation::new("node-immutable", format!("after step {step} ({kind}): atom_len of handle {i} is {} expected {}", a.atom_len(h.ptr), bytes.len())).with("view", "atom_len"));
                }
                match a.node(h.ptr) {
                    NodeVisitor::Buffer(b) => {
                        if b != bytes.as_slice() {
                            return Some(Violation::new("node-immutable", format!("after step {step} ({kind}): node() of handle {i} differs")).with("view", "node"));
                        }
                    }
                    NodeVisitor::U32(v) => {
                        if small_int_view(bytes) != Some(v) {
                            return Some(Violation::new("node-immutable", format!("after step {step} ({kind}): node() of handle {i} is U32({v}) but bytes are {}", hex::encode(bytes))).with("view", "node"));
                        }
                    }
                    NodeVisitor::Pair(..) => {
                        return Some(Violation::new("node-immutable", format!("after step {step} ({kind}): node() of atom handle {i} is a pair")).with("view", "node"));
                    }
                }
                let want_small = small_int_view(bytes);
                let got_small = a.small_number(h.ptr);
                if want_small != got_small {
                    return Some(
                        Violation::new(
                            "small-int-view",
                            format!("small_number of atom {} is {got_small:?}; by definition (minimal encoding of a value < 2^26) it is {want_small:?}", hex::encode(bytes)),
                        )
                        .with("view", "small_number"),
                    );
                }
                if bytes.len() <= 64 {
                    let want_n = if bytes.is_empty() { BigInt::from(0) } else { BigInt::from_signed_bytes_be(bytes) };
                    if a.number(h.ptr) != want_n {
                        return Some(Violation::new("number-readback", format!("number() of atom {} is {} expected {want_n}", hex::encode(bytes), a.number(h.ptr))).with("view", "number"));
                    }
                }
            }
            Content::Pair(l, r) => match a.sexp(h.ptr) {
                SExp::Pair(pl, pr) => {
                    if pl != hs[*l].ptr || pr != hs[*r].ptr {
                        return Some(Violation::new("node-immutable", format!("after step {step} ({kind}): pair handle {i} has children {pl:?},{pr:?}; created with {:?},{:?}", hs[*l].ptr, hs[*r].ptr)).with("view", "sexp"));
                    }
                }
                SExp::Atom => {
                    return Some(Violation::new("node-immutable", format!("after step {step} ({kind}): pair handle {i} now reads as an atom")).with("view", "sexp"));
                }
            },
        }
    }
    None
}

fn atom_eq_check(a: &Allocator, hs: &[Handle]) -> Option<Violation> {
    let atoms: Vec<&Handle> = hs.iter().filter(|h| h.alive && matches!(h.content, Content::Atom(_))).collect();
    let n = atoms.len().min(24);
    for i in 0..n {
        for j in 0..n {
            let (Content::Atom(x), Content::Atom(y)) = (&atoms[i].content, &atoms[j].content) else { continue };
            let got = a.atom_eq(atoms[i].ptr, atoms[j].ptr);
            if got != (x == y) {
                return Some(
                    Violation::new(
                        "atom-eq-is-byte-eq",
                        format!("atom_eq({}, {}) = {got} ({:?} vs {:?})", hex::encode(x), hex::encode(y), atoms[i].ptr.object_type(), atoms[j].ptr.object_type()),
                    )
                    .with("lhs", &format!("{:?}", atoms[i].ptr.object_type()))
                    .with("rhs", &format!("{:?}", atoms[j].ptr.object_type())),
                );
            }
        }
    }
    None
}

// ---------------------------------------------------------------------------
// generation

fn gen_int_mag(rng: &mut Rng) -> (bool, Vec<u8>) {
    let neg = rng.bool();
    let mag = match rng.below(6) {
        0 => {
            // around powers of two
            let bits = *rng.pick(&[7u32, 8, 15, 16, 23, 24, 26, 31, 32, 63, 64, 127, 128]);
            let mut v = vec![0u8; (bits / 8 + 1) as usize];
            let n = v.len();
            v[n - 1 - (bits / 8) as usize] = 1 << (bits % 8);
            // +-1
            match rng.below(3) {
                0 => {
                    // minus one
                    let mut i = n;
                    loop {
                        i -= 1;
                        if v[i] == 0 {
                            v[i] = 0xff;
                        } else {
                            v[i] -= 1;
                            break;
                        }
                    }
                }
                1 => {
                    v[n - 1] |= 1;
                }
                _ => {}
            }
            v
        }
        1 => vec![],
        2 => vec![rng.below(256) as u8],
        3 => {
            let n = 1 + rng.usize(4);
            rng.bytes(n)
        }
        4 => {
            let n = 1 + rng.usize(64);
            rng.bytes(n)
        }
        _ => {
            let n = 1 + rng.usize(8);
            let mut b = rng.bytes(n);
            b.insert(0, 0);
            b
        }
    };
    (neg, mag)
}

pub fn gen_ops(rng: &mut Rng, mode: Mode, thorough: bool) -> Vec<Op> {
    let len = match rng.below(10) {
        0..=5 => 3 + rng.usize(10),
        6..=8 => 8 + rng.usize(25),
        _ => 20 + rng.usize(if thorough { 100 } else { 40 }),
    };
    let cfg = TreeCfg {
        medium_atoms: true,
        ..TreeCfg::small()
    };
    // swarm: per-run subset of op families
    let w_int = if mode == Mode::C14 { 30 } else { 10 } * rng.below(2) as u32 + 4;
    let w_restore = if rng.chance(3, 4) { 10 } else { 0 };
    let w_gc = if rng.chance(2, 3) { 8 } else { 0 };
    let w_big = if rng.chance(1, 2) { 6 } else { 1 };
    let w_err = if rng.chance(1, 3) { 3 } else { 0 };
    let mut ops = Vec::new();
    for _ in 0..len {
        let w: [u32; 16] = [
            14,        // new_atom
            5,         // small
            w_int,     // u64/i64
            w_int,     // number / malachite
            2,         // g1/g2
            14,        // pair
            12,        // substr
            8,         // concat
            w_big,     // big atom (>= 1 KiB)
            5,         // checkpoint
            w_restore, // restore
            5,         // tcheckpoint
            w_restore / 2, // trestore
            w_gc,      // maybe_restore
            w_err,     // argument errors
            1,         // ghost adds
        ];
        let op = match rng.weighted(&w) {
            0 => Op::NewAtom(gen_atom(rng, &TreeCfg::small())),
            1 => Op::NewSmall(match rng.below(3) {
                0 => rng.below(1 << 26) as u32,
                1 => *rng.pick(&[0u32, 1, 0x7f, 0x80, 0x7fff, 0x8000, 0x7fffff, 0x800000, 0x3ffffff]),
                _ => rng.below(300) as u32,
            }),
            2 => {
                if rng.bool() {
                    Op::NewU64(match rng.below(3) {
                        0 => rng.next_u64(),
                        1 => (1u64 << rng.below(64)).wrapping_add(rng.below(3)).wrapping_sub(1),
                        _ => rng.below(1 << 27),
                    })
                } else {
                    Op::NewI64(match rng.below(3) {
                        0 => rng.next_u64() as i64,
                        1 => {
                            let v = (1i64 << rng.below(63)).wrapping_add(rng.below(3) as i64 - 1);
                            if rng.bool() { v.wrapping_neg() } else { v }
                        }
                        _ => rng.below(1 << 27) as i64 - (1 << 26),
                    })
                }
            }
            3 => {
                let (neg, mag) = gen_int_mag(rng);
                if rng.bool() { Op::NewNumber(neg, mag) } else { Op::NewMalachite(neg, mag) }
            }
            4 => {
                if rng.bool() {
                    Op::NewG1(rng.below(4) as u8)
                } else {
                    Op::NewG2(rng.below(4) as u8)
                }
            }
            5 => Op::NewPair(rng.next_u64() as u32, rng.next_u64() as u32),
            6 => Op::NewSubstr(rng.next_u64() as u32, rng.next_u64() as u32, rng.next_u64() as u32, true),
            7 => {
                let n = match rng.below(6) {
                    0 => 0,
                    1 => 1,
                    _ => 2 + rng.usize(4),
                };
                Op::NewConcat((0..n).map(|_| rng.next_u64() as u32).collect(), 0)
            }
            8 => {
                let n = 1000 + rng.usize(1200);
                Op::NewAtom(rng.bytes(n))
            }
            9 => Op::Checkpoint,
            10 => Op::Restore(rng.next_u64() as u32),
            11 => Op::TCheckpoint,
            12 => Op::TRestore(rng.next_u64() as u32),
            13 => Op::MaybeRestore(rng.next_u64() as u32, rng.next_u64() as u32),
            14 => match rng.below(4) {
                0 => Op::NewSubstr(rng.next_u64() as u32, rng.next_u64() as u32, rng.next_u64() as u32, false),
                1 => Op::SubstrOfPair(rng.next_u64() as u32, rng.below(4) as u32, rng.below(4) as u32),
                2 => {
                    let n = 2 + rng.usize(3);
                    Op::NewConcat((0..n).map(|_| rng.next_u64() as u32).collect(), *rng.pick(&[-2i32, -1, 1, 2, 7]))
                }
                _ => {
                    let n = 1 + rng.usize(3);
                    Op::ConcatWithPair((0..n).map(|_| rng.next_u64() as u32).collect(), rng.next_u64() as u32)
                }
            },
            _ => {
                if rng.bool() {
                    Op::AddGhostAtom(rng.below(4))
                } else {
                    Op::AddGhostPair(rng.below(4))
                }
            }
        };
        ops.push(op);
        let _ = &cfg;
    }
    // motif (1/8 of the histories): a value-preserving restore whose savings come from pair and
    // atom SLOTS only - 128..200 pairs or heap-less slices after the checkpoint - and whose
    // preserved node is (mostly) the one small heap atom made after them
    if rng.chance(1, 8) {
        let mut m: Vec<Op> = Vec::new();
        let n0 = 40 + rng.usize(60);
        m.push(Op::NewAtom(rng.bytes(n0)));
        m.push(Op::TCheckpoint);
        for _ in 0..rng.usize(3) {
            m.push(Op::NewSubstr(rng.next_u64() as u32, rng.next_u64() as u32, rng.next_u64() as u32, true));
        }
        let bulk = 128 + rng.usize(72);
        let pairs = rng.bool();
        for _ in 0..bulk {
            if pairs || rng.chance(1, 10) {
                m.push(Op::NewPair(rng.next_u64() as u32, rng.next_u64() as u32));
            } else {
                m.push(Op::NewSubstr(rng.next_u64() as u32, rng.next_u64() as u32, rng.next_u64() as u32, true));
            }
        }
        match rng.below(4) {
            0 => {}
            1 => m.push(Op::NewConcat(vec![rng.next_u64() as u32, rng.next_u64() as u32], 0)),
            _ => {
                let n = 5 + rng.usize(44);
                m.push(Op::NewAtom(rng.bytes(n)));
            }
        }
        m.push(Op::MaybeRestore(u32::MAX, if rng.chance(3, 4) { u32::MAX } else { rng.next_u64() as u32 }));
        let at = rng.usize(ops.len() + 1);
        let tail = ops.split_off(at);
        ops.extend(m);
        ops.extend(tail);
    }
    ops
}

pub fn shrink_case(case: &Case) -> Vec<Case> {
    let mut v = Vec::new();
    let n = case.ops.len();
    // drop suffix halves, then single ops
    if n > 1 {
        v.push(Case {
            ops: case.ops[..n / 2].to_vec(),
            ..case.clone()
        });
        v.push(Case {
            ops: case.ops[..n - 1].to_vec(),
            ..case.clone()
        });
    }
    for i in 0..n {
        let mut ops = case.ops.clone();
        ops.remove(i);
        v.push(Case { ops, ..case.clone() });
    }
    // shrink arguments
    for i in 0..n {
        let simpler: Option<Op> = match &case.ops[i] {
            Op::NewAtom(b) if b.len() > 1 => Some(Op::NewAtom(b[..b.len() / 2].to_vec())),
            Op::NewNumber(s, m) if m.len() > 1 => Some(Op::NewNumber(*s, m[..m.len() / 2].to_vec())),
            Op::NewMalachite(s, m) if m.len() > 1 => Some(Op::NewMalachite(*s, m[..m.len() / 2].to_vec())),
            Op::NewConcat(sel, d) if sel.len() > 2 => Some(Op::NewConcat(sel[..sel.len() - 1].to_vec(), *d)),
            Op::NewPair(l, r) if *l > 64 || *r > 64 => Some(Op::NewPair(l % 8, r % 8)),
            Op::NewSubstr(h, x, y, valid) if *h > 64 || *x > 64 || *y > 64 => Some(Op::NewSubstr(h % 8, x % 8, y % 8, *valid)),
            _ => None,
        };
        if let Some(op) = simpler {
            let mut ops = case.ops.clone();
            ops[i] = op;
            v.push(Case { ops, ..case.clone() });
        }
    }
    if case.heap_limit != u32::MAX as u64 {
        // keep the limit; try without any limit too (the minimiser only accepts the same oracle)
        v.push(Case {
            heap_limit: u32::MAX as u64,
            ..case.clone()
        });
    }
    v
}

fn sample_case(case: &Case) -> Value {
    let ops: Vec<String> = case
        .ops
        .iter()
        .take(14)
        .map(|o| {
            let s = serde_json::to_string(o).unwrap_or_default();
            if s.len() > 60 { format!("{}...", &s[..60]) } else { s }
        })
        .collect();
    json!({"heap_limit": case.heap_limit, "ops_total": case.ops.len(), "first_ops": ops})
}

// ---------------------------------------------------------------------------
// C12

pub struct C12;
impl Scenario for C12 {
    const ID: &'static str = "C12";
    const LEVEL: &'static str = "exploration";
    type Case = Case;
    fn generate(rng: &mut Rng, tier: Tier, _run: u64) -> Case {
        Case {
            heap_limit: u32::MAX as u64,
            ops: gen_ops(rng, Mode::C12, tier == Tier::Thorough),
            readback_every: 0,
        }
    }
    fn execute(case: &Case, ctx: &Ctx) -> Outcome {
        run_history(case, ctx, Mode::C12).0
    }
    fn shrink(case: &Case) -> Vec<Case> {
        shrink_case(case)
    }
    fn sample(case: &Case) -> Value {
        sample_case(case)
    }
    fn rule() -> &'static str {
        "case = seeded history of 3..120 public Allocator calls (atoms of every class, integers, G1/G2, pairs, substr, concat, ghost adds, full/transparent checkpoints and restores, maybe_restore_with_node, illegal-argument calls); handles and checkpoints are chosen by selectors resolved against the live set, so every history is legal. After every call atom_count/pair_count/heap_size are compared with the three-integer reference model. Non-trivial: >=3 calls of >=2 kinds; distinct = distinct fingerprints of (call kinds, counts after every call)."
    }
    fn default_runs(tier: Tier) -> u64 {
        match tier {
            Tier::Quick => 12_000_000,
            Tier::Thorough => 6_000_000_000,
        }
    }
    fn real_components() -> &'static [&'static str] {
        &["clvmr::Allocator (all public constructors, checkpoints, restores, maybe_restore_with_node)", "chia-bls G1/G2 elements"]
    }
    fn stub_components() -> &'static [&'static str] {
        &["reference model: three integers + snapshot stack + handle table (sim/src/scen/alloc.rs)"]
    }
    fn assumptions() -> &'static [&'static str] {
        &[
            "nodes created after a checkpoint are treated as dead after a restore to it (never used again)",
            "heap limit unlimited here; limits are C13",
            "the open known finding (substr of an inline atom, non-canonical slice) is applied to the model as its documented delta so later steps are still compared exactly",
        ]
    }
    fn reach_probes() -> &'static [&'static str] {
        &["fault.full_restore", "fault.transparent_restore", "fault.gc_aborted", "fault.gc_noreplace", "fault.gc_replace", "shape.substr_of_inline_noncanonical"]
    }
}

// ---------------------------------------------------------------------------
// C14

pub struct C14;
impl Scenario for C14 {
    const ID: &'static str = "C14";
    const LEVEL: &'static str = "exploration";
    type Case = Case;
    fn generate(rng: &mut Rng, tier: Tier, run: u64) -> Case {
        // part of the batch enumerates short byte strings exhaustively in all representations
        let limit3 = tier == Tier::Thorough;
        let short_total: u64 = if limit3 { 1 + 256 + 65536 + 16_777_216 / 64 } else { 1 + 256 + 65536 / 8 };
        if run < short_total / 8 + 1 && run % 2 == 0 {
            // eight consecutive short strings per case
            let base = (run / 2) * 8;
            let mut ops = Vec::new();
            for k in 0..8 {
                let idx = base + k;
                let bytes: Vec<u8> = if idx == 0 {
                    vec![]
                } else if idx <= 256 {
                    vec![(idx - 1) as u8]
                } else if idx <= 256 + 65536 {
                    let v = idx - 257;
                    vec![(v >> 8) as u8, v as u8]
                } else {
                    let v = (idx - 257 - 65536).wrapping_mul(64) + rng.below(64);
                    vec![(v >> 16) as u8, (v >> 8) as u8, v as u8]
                };
                // three representations: direct, own heap buffer via concat, substring view
                ops.push(Op::NewAtom(bytes.clone()));
                let mut padded = vec![0xAAu8];
                padded.extend_from_slice(&bytes);
                padded.push(0x55);
                ops.push(Op::NewAtom(padded));
            }
            // views of the padded atoms: handle 2k+1 has the padding; substr(1, len-1)
            for k in 0..8u32 {
                // selector resolves over live atoms in creation order: index 2k+1
                ops.push(Op::SubstrInner(2 * k + 1));
            }
            return Case {
                heap_limit: u32::MAX as u64,
                ops,
                readback_every: 8,
            };
        }
        let mut ops = gen_ops(rng, Mode::C14, tier == Tier::Thorough);
        // histories with the slots-only restore motif (> 130 calls) are kept whole and read back
        // every 16th call (and after the last one); the others are capped at 60 calls
        let long = ops.len() > 130;
        if !long && ops.len() > 60 {
            ops.truncate(60);
        }
        Case {
            heap_limit: if !long && rng.chance(1, 4) { 1 + rng.below(3000) } else { u32::MAX as u64 },
            ops,
            readback_every: if long {
                16
            } else if tier == Tier::Thorough || rng.chance(1, 2) {
                1
            } else {
                4
            },
        }
    }
    fn execute(case: &Case, ctx: &Ctx) -> Outcome {
        run_history(case, ctx, Mode::C14).0
    }
    fn shrink(case: &Case) -> Vec<Case> {
        shrink_case(case)
    }
    fn sample(case: &Case) -> Value {
        sample_case(case)
    }
    fn rule() -> &'static str {
        "case = allocator history as in C12 (some with a small heap limit so that calls fail), plus a systematic part that creates every byte string of length <=2 (thorough: a 1/64 sample of length 3 too) directly, inside a longer heap atom and as a substring view. After every call (quick: every call or every 4th) every live handle is read back through atom/atom_len/node/sexp/small_number/number and compared with the bytes/children recorded at creation; atom_eq is evaluated on all pairs of up to 24 live atoms. Non-trivial: >=3 calls of >=2 kinds."
    }
    fn default_runs(tier: Tier) -> u64 {
        match tier {
            Tier::Quick => 6_000_000,
            Tier::Thorough => 3_000_000_000,
        }
    }
    fn real_components() -> &'static [&'static str] {
        &["clvmr::Allocator constructors, restores and every read accessor", "num-bigint / malachite-bigint conversions inside new_number / new_malachite_number / number"]
    }
    fn stub_components() -> &'static [&'static str] {
        &["handle table with the bytes/children recorded at creation", "minimal two's-complement encoder and small-integer-view definition (sim/src/model.rs)"]
    }
    fn assumptions() -> &'static [&'static str] {
        &["nodes created after a checkpoint are not read after a restore to it", "number() read-back compared only for atoms up to 64 bytes"]
    }
    fn reach_probes() -> &'static [&'static str] {
        &["fault.full_restore", "fault.transparent_restore", "fault.gc_replace", "sim.readbacks"]
    }
}

// ---------------------------------------------------------------------------
// C13

#[derive(Clone, Debug, Serialize, Deserialize)]
pub enum C13Case {
    History(Case),
    /// a program run near a cap placed from its own reference trajectory
    Program {
        #[serde(with = "crate::util::sx_serde")]
        prog: crate::sx::Sx,
        #[serde(with = "crate::util::sx_serde")]
        env: crate::sx::Sx,
        flags: u32,
        /// which counter: "heap" | "atoms" | "pairs"
        cap: String,
        /// distance of the cap from the peak of the reference run: cap = peak + delta
        delta: i64,
        entropy: crate::seams::EntropyPlan,
    },
    /// a decoder run near the pair cap
    Deser {
        #[serde(with = "crate::util::hex_serde")]
        bytes: Vec<u8>,
        /// 0 = node_from_bytes_backrefs, 1 = node_from_bytes_backrefs_old, 2 = node_from_bytes
        decoder: u8,
        delta: i64,
    },
}

fn c13_program(prog: &crate::sx::Sx, env: &crate::sx::Sx, flags: u32, cap: &str, delta: i64, entropy: &crate::seams::EntropyPlan) -> Outcome {
    use crate::prog::{AllocCfg, run_once};
    use clvmr::verif::Probe;
    let mut out = Outcome::default();
    let mut fp = Fp::default();
    // The peaks come from the run without ENABLE_GC: that run performs no value-preserving
    // restores, so its counters are the plain sum of what was allocated (C04 says GC must not
    // change them). The capped run uses the case's own flags.
    let reference = run_once(prog, env, flags & !crate::prog::F_ENABLE_GC, 0, &AllocCfg::unlimited(), entropy, 200_000);
    out.evals += 1;
    if reference.setup_failed || reference.probes.dropped > 0 {
        return out;
    }
    // peaks over step ends (counters only fall at guard exit, which is its own step)
    let mut peak = (2u64, 0u64, 1u64);
    for ev in &reference.probes.events {
        if let Probe::Step { atoms, pairs, heap, .. } = ev {
            peak.0 = peak.0.max(*atoms as u64);
            peak.1 = peak.1.max(*pairs as u64);
            peak.2 = peak.2.max(*heap as u64);
        }
    }
    peak.0 = peak.0.max(reference.counts.0);
    peak.1 = peak.1.max(reference.counts.1);
    peak.2 = peak.2.max(reference.counts.2);
    let mut ac = AllocCfg::unlimited();
    let want_err;
    match cap {
        "heap" => {
            let l = peak.2 as i64 + delta;
            if l < 1 {
                return out;
            }
            ac.heap_limit = Some(l as u64);
            want_err = "OutOfMemory";
        }
        "atoms" => {
            let n = MAX_ATOMS as i64 - peak.0 as i64 - delta; // counter reaches MAX + (-delta)
            if n < 0 {
                return out;
            }
            ac.ghost_atoms = n as u64;
            want_err = "TooManyAtoms";
        }
        _ => {
            let n = MAX_PAIRS as i64 - peak.1 as i64 - delta;
            if n < 0 {
                return out;
            }
            ac.ghost_pairs = n as u64;
            want_err = "TooManyPairs";
        }
    }
    let capped = run_once(prog, env, flags, 0, &ac, entropy, 200_000);
    out.evals += 1;
    fp.str(&reference.key());
    fp.str(cap);
    fp.u64(delta as u64);
    out.count(&format!("fault.program_cap.{cap}.{}", if delta < 0 { "below_peak" } else { "at_or_above_peak" }), 1);
    let limit = ac.heap_limit.unwrap_or(u32::MAX as u64);
    // no step may show a counter above its cap
    for ev in &capped.probes.events {
        if let Probe::Step { atoms, pairs, heap, .. } = ev
            && (*atoms as u64 > MAX_ATOMS || *pairs as u64 > MAX_PAIRS || *heap as u64 > limit)
        {
            out.fail(Violation::new("counter-within-cap", format!("during a program run a step ended with (atoms,pairs,heap)=({atoms},{pairs},{heap}); caps {MAX_ATOMS}/{MAX_PAIRS}/{limit}")).with("op", "run_program").with("cap", cap));
            out.fingerprint = fp.finish();
            return out;
        }
    }
    if capped.counts.0 > MAX_ATOMS || capped.counts.1 > MAX_PAIRS || capped.counts.2 > limit {
        out.fail(Violation::new("counter-within-cap", format!("after a program run the allocator reports {:?}; caps {MAX_ATOMS}/{MAX_PAIRS}/{limit}", capped.counts)).with("op", "run_program").with("cap", cap));
        out.fingerprint = fp.finish();
        return out;
    }
    if capped.setup_failed {
        // the cap struck while the program was being built: only legal below the peak
        if delta >= 0 {
            out.fail(Violation::new("cap-error-only-when-exceeded", format!("building the program failed although the {cap} cap is {delta} above the peak of the unlimited run")).with("op", "setup").with("cap", cap));
        }
        out.fingerprint = fp.finish();
        return out;
    }
    if delta >= 0 {
        // cap at or above the peak: the run is unaffected
        let same = match (&reference.res, &capped.res) {
            (Ok((c0, h0, _)), Ok((c1, h1, _))) => c0 == c1 && h0 == h1,
            (Err((k0, _)), Err((k1, _))) => k0 == k1,
            _ => false,
        };
        if !same {
            out.fail(
                Violation::new("cap-error-only-when-exceeded", format!("{cap} cap {delta} above the peak {peak:?} of the unlimited run, yet: unlimited {}; capped {}", reference.brief(), capped.brief()))
                    .with("op", "run_program")
                    .with("cap", cap),
            );
        }
    } else if let Ok(_) = &reference.res {
        // cap below the peak of a successful run: it must fail with the matching cap error
        match &capped.res {
            Err((k, _)) if k == want_err => out.count(&format!("fault.cap_hit.{k}"), 1),
            other => {
                out.fail(
                    Violation::new("cap-exceeded-must-fail", format!("{cap} cap {} below the peak {peak:?} of the unlimited run, but the capped run gives {}", -delta, match other { Ok((c, _, _)) => format!("Ok(cost {c})"), Err((k, m)) => format!("Err({k}: {m})") }))
                        .with("op", "run_program")
                        .with("cap", cap),
                );
            }
        }
    }
    out.nontrivial = reference.probes.events.len() >= 3;
    out.fingerprint = fp.finish();
    out
}

fn c13_deser(bytes: &[u8], decoder: u8, delta: i64) -> Outcome {
    use clvmr::serde::{node_from_bytes, node_from_bytes_backrefs, node_from_bytes_backrefs_old};
    let mut out = Outcome::default();
    let mut fp = Fp::default();
    let dec = |a: &mut Allocator| match decoder {
        0 => node_from_bytes_backrefs(a, bytes),
        1 => node_from_bytes_backrefs_old(a, bytes),
        _ => node_from_bytes(a, bytes),
    };
    let mut a0 = Allocator::new();
    let r0 = dec(&mut a0);
    out.evals += 1;
    let Ok(n0) = r0 else { return out };
    let used = a0.pair_count() as i64;
    let t0 = crate::sx::Sx::from_alloc(&a0, n0, 4_000_000);
    let preload = MAX_PAIRS as i64 - used - delta;
    if preload < 0 {
        return out;
    }
    let mut a1 = Allocator::new();
    if a1.add_ghost_pair(preload as usize).is_err() {
        return out;
    }
    let r1 = dec(&mut a1);
    out.evals += 1;
    fp.bytes(bytes);
    fp.u64(decoder as u64);
    fp.u64(delta as u64);
    let name = ["node_from_bytes_backrefs", "node_from_bytes_backrefs_old", "node_from_bytes"][decoder.min(2) as usize];
    out.count(&format!("fault.decoder_pair_cap.{}", if delta < 0 { "below_need" } else { "at_or_above_need" }), 1);
    if a1.pair_count() as u64 > MAX_PAIRS {
        out.fail(Violation::new("counter-within-cap", format!("{name}: pair count {} exceeds the cap", a1.pair_count())).with("op", name));
    } else if delta >= 0 {
        match r1 {
            Ok(n1) => {
                let same = crate::sx::Sx::from_alloc(&a1, n1, 4_000_000).zip(t0).map(|(x, y)| x.same_tree(&y)).unwrap_or(true);
                if !same {
                    out.fail(Violation::new("cap-error-only-when-exceeded", format!("{name}: different tree when {delta} pairs of head-room remain")).with("op", name));
                }
            }
            Err(e) => {
                out.fail(Violation::new("cap-error-only-when-exceeded", format!("{name}: needs {used} pairs, {delta} more than that were available, but it failed with {}", err_name(&e))).with("op", name));
            }
        }
    } else {
        match r1 {
            Err(EvalErr::TooManyPairs) => out.count("fault.cap_hit.TooManyPairs", 1),
            Err(e) => {
                out.fail(Violation::new("cap-exceeded-gives-cap-error", format!("{name}: {} pairs short of what it needs, failed with {} instead of too-many-pairs", -delta, err_name(&e))).with("op", name));
            }
            Ok(_) => {
                out.fail(Violation::new("cap-exceeded-must-fail", format!("{name}: succeeded although it needs {used} pairs and only {} were available", used + delta)).with("op", name));
            }
        }
    }
    out.nontrivial = bytes.len() >= 3;
    out.fingerprint = fp.finish();
    out
}

pub struct C13;
impl Scenario for C13 {
    const ID: &'static str = "C13";
    const LEVEL: &'static str = "exploration";
    type Case = C13Case;
    fn generate(rng: &mut Rng, tier: Tier, _run: u64) -> C13Case {
        match rng.below(10) {
            0 | 1 => {
                let (g, flags) = crate::scen::c02::gen_case_program(rng, tier == Tier::Thorough, true, true, false);
                return C13Case::Program {
                    prog: g.prog.compact(),
                    env: g.env,
                    flags: flags | if rng.chance(1, 3) { crate::prog::F_ENABLE_GC } else { 0 },
                    cap: rng.pick(&["heap", "heap", "atoms", "pairs"]).to_string(),
                    delta: *rng.pick(&[-3i64, -1, -1, 0, 0, 1, 5]),
                    entropy: if rng.bool() { crate::seams::EntropyPlan::Zero } else { crate::seams::EntropyPlan::Prng(rng.next_u64()) },
                };
            }
            2 => {
                let t = crate::wgen::gen_sharing_tree(rng, false);
                let decoder = rng.below(3) as u8;
                let mut a = Allocator::new();
                let bytes = t.to_alloc(&mut a).ok().and_then(|n| if decoder == 2 { clvmr::serde::node_to_bytes_limit(&a, n, 1 << 22).ok() } else { clvmr::serde::node_to_bytes_backrefs(&a, n).ok() }).unwrap_or(vec![0x80]);
                return C13Case::Deser {
                    bytes,
                    decoder,
                    delta: *rng.pick(&[-2i64, -1, -1, 0, 0, 1, 3]),
                };
            }
            _ => {}
        }
        let mut ops = gen_ops(rng, Mode::C13, tier == Tier::Thorough);
        // reference trajectory on an unlimited allocator (real code) to place the caps
        let probe = Case {
            heap_limit: u32::MAX as u64,
            ops: ops.clone(),
            readback_every: 0,
        };
        let (_, traj) = run_history(&probe, &Ctx::default(), Mode::C12);
        let n = traj.heap_after.len();
        let pick_step = |rng: &mut Rng| if n == 0 { 0 } else { rng.usize(n) };
        let mut heap_limit = u32::MAX as u64;
        // swarm: which caps are armed in this run
        let arm_heap = rng.chance(2, 3);
        let arm_atoms = rng.chance(1, 3);
        let arm_pairs = rng.chance(1, 3);
        if arm_heap && n > 0 {
            heap_limit = match rng.below(6) {
                0 => rng.below(64),
                1 => traj.heap_after.iter().copied().max().unwrap_or(1).saturating_sub(1),
                _ => {
                    let s = pick_step(rng);
                    (traj.heap_after[s] + rng.below(3)).saturating_sub(1)
                }
            };
        }
        let mut pre = Vec::new();
        if arm_atoms && n > 0 {
            let target = if rng.chance(1, 3) { 2 + rng.below(9) } else { traj.atoms_after[pick_step(rng)] + rng.below(3) - 1 };
            // preload so that the atom count reaches MAX when the unlimited run would reach `target`
            pre.push(Op::AddGhostAtom(MAX_ATOMS.saturating_sub(target.max(2))));
        }
        if arm_pairs && n > 0 {
            let target = if rng.chance(1, 3) { rng.below(9) } else { (traj.pairs_after[pick_step(rng)] + rng.below(3)).saturating_sub(1) };
            pre.push(Op::AddGhostPair(MAX_PAIRS.saturating_sub(target)));
        }
        pre.append(&mut ops);
        // a fresh allocator already reports heap size 1, so limits below 1 describe a
        // starting state that is over its cap before any call; not explored
        let heap_limit = heap_limit.max(1);
        C13Case::History(Case {
            heap_limit,
            ops: pre,
            readback_every: 0,
        })
    }
    fn execute(case: &C13Case, ctx: &Ctx) -> Outcome {
        match case {
            C13Case::History(c) => run_history(c, ctx, Mode::C13).0,
            C13Case::Program { prog, env, flags, cap, delta, entropy } => c13_program(prog, env, *flags, cap, *delta, entropy),
            C13Case::Deser { bytes, decoder, delta } => c13_deser(bytes, *decoder, *delta),
        }
    }
    fn shrink(case: &C13Case) -> Vec<C13Case> {
        match case {
            C13Case::History(c) => shrink_case(c).into_iter().map(C13Case::History).collect(),
            C13Case::Program { prog, env, flags, cap, delta, entropy } => prog
                .shrink_candidates()
                .into_iter()
                .take(200)
                .map(|t| C13Case::Program {
                    prog: t,
                    env: env.clone(),
                    flags: *flags,
                    cap: cap.clone(),
                    delta: *delta,
                    entropy: entropy.clone(),
                })
                .collect(),
            C13Case::Deser { .. } => vec![],
        }
    }
    fn sample(case: &C13Case) -> Value {
        match case {
            C13Case::History(c) => sample_case(c),
            C13Case::Program { prog, flags, cap, delta, .. } => json!({"kind": "program near cap", "program": prog.brief(160), "flags": format!("{flags:#x}"), "cap": cap, "cap_minus_peak": delta}),
            C13Case::Deser { bytes, decoder, delta } => json!({"kind": "decoder near pair cap", "decoder": decoder, "bytes": crate::util::hex_short(bytes), "headroom_minus_need": delta}),
        }
    }
    fn rule() -> &'static str {
        "case = allocator history as in C12 run on Allocator::new_limited(L) and/or pre-loaded with add_ghost_atom / add_ghost_pair to a chosen distance from the 62,500,000 caps; L and the distances are placed from the reference trajectory of the same history on an unlimited allocator (at a chosen step +-1, one below the peak, or 0..64). Per call: the model computes which caps completing the call would exceed; the call must fail iff that set is non-empty, with an error naming a member; a failed call leaves counts and the contents of every live handle unchanged; counters never exceed a cap. 20% of the cases are generated programs run with the heap / atom / pair cap placed -3..+5 from the peak of their own unlimited reference run (cap >= peak: identical outcome; cap < peak of a successful run: the matching cap error; no step probe above a cap), 10% are node_from_bytes_backrefs / _old / node_from_bytes decoding with the pair cap -2..+3 from what the decoder needs. Non-trivial: >=3 calls of >=2 kinds (histories), >=3 VM steps (programs), >=3 bytes (decoders)."
    }
    fn default_runs(tier: Tier) -> u64 {
        match tier {
            Tier::Quick => 2_500_000,
            Tier::Thorough => 4_000_000_000,
        }
    }
    fn real_components() -> &'static [&'static str] {
        &["clvmr::Allocator (new_limited, ghost pre-load, every constructor, restores)"]
    }
    fn stub_components() -> &'static [&'static str] {
        &["reference model of the three counters and of the cap set each call would exceed", "cap placement from a reference trajectory"]
    }
    fn assumptions() -> &'static [&'static str] {
        &[
            "cap prediction starts from the allocator's own reported counts before the call (C12 checks those against the model separately)",
            "for the one call shape listed as an open C12 finding the prediction uses the documented delta",
        ]
    }
    fn reach_probes() -> &'static [&'static str] {
        &[
            "fault.cap_hit.OutOfMemory",
            "fault.cap_hit.TooManyAtoms",
            "fault.cap_hit.TooManyPairs",
            "fault.full_restore",
            "fault.gc_replace",
            "fault.program_cap.heap.below_peak",
            "fault.program_cap.atoms.below_peak",
            "fault.program_cap.pairs.below_peak",
            "fault.decoder_pair_cap.below_need",
        ]
    }
}
