//! C17 — back-reference serialization round-trips, never grows, is identical
//!        from run to run (hash salts owned by the simulator).
//! C19 — incremental serializer add/undo histories.

use crate::core::{Ctx, Outcome, Scenario, Tier, Violation};
use crate::model::{self, TokKind};
use crate::rng::{Fp, Rng};
use crate::seams::{EntropyGuard, EntropyPlan, IoSchedule, SimWriter, entropy_plans};
use crate::sx::{Sx, SxNode};
use crate::util::{err_name, hex_short, sx_serde};
use crate::wgen::{TreeCfg, gen_sharing_tree, gen_tree, perturb_tree};
use clvmr::allocator::{Allocator, NodePtr};
use clvmr::serde::{
    Serializer, UndoState, is_canonical_serialization, node_from_bytes_backrefs, node_to_bytes_backrefs, node_to_stream_backrefs,
};
use serde::{Deserialize, Serialize};
use serde_json::{Value, json};

// ---------------------------------------------------------------------------
// C17

pub struct C17;

#[derive(Clone, Serialize, Deserialize)]
pub struct Case17 {
    #[serde(with = "sx_serde")]
    pub tree: Sx,
    pub plans: Vec<EntropyPlan>,
    pub sched: IoSchedule,
    /// non-zero: seed of a per-atom representation plan (inline, own heap buffer via concat,
    /// substring view, number constructors) for the tree handed to the serializer
    #[serde(default)]
    pub repr: u64,
    /// non-zero: before the calls that are judged, the same tree is serialized with a size limit
    /// of `prelude` per-mille of its classic length and through a writer that fails at that offset
    /// (calls that fail half-way) in the same thread
    #[serde(default)]
    pub prelude: u16,
}

/// a long right spine (the shape of wgen::gen_far_repeat)
fn is_far_repeat(t: &Sx) -> bool {
    let mut n = t.root;
    let mut len = 0;
    while let SxNode::P(_, r) = t.nodes[n as usize] {
        n = r;
        len += 1;
    }
    len >= 390
}

impl Scenario for C17 {
    const ID: &'static str = "C17";
    const LEVEL: &'static str = "exploration";
    type Case = Case17;

    fn generate(rng: &mut Rng, tier: Tier, _run: u64) -> Case17 {
        let mut tree = gen_sharing_tree(rng, tier == Tier::Thorough);
        // quick: mostly up to 700 nodes; 1 in 200 up to 6000 (paths longer than 63 bytes)
        if is_far_repeat(&tree) && rng.chance(3, 4) {
            // each long list costs as much as a few hundred ordinary cases: keep a quarter of them
            let cfg = TreeCfg {
                far_repeat: false,
                ..TreeCfg::swarm(rng, false)
            };
            tree = gen_tree(rng, &cfg);
        }
        let cap = if tier == Tier::Thorough || rng.chance(1, 200) { 6000 } else { 700 };
        // (long lists with a far repeat are kept whatever their size: < 3300 nodes)
        while (tree.nodes.len() > cap && !is_far_repeat(&tree)) || model::ser_len(&tree) > 8 << 20 {
            let cfg = TreeCfg {
                max_leaves: cap / 4,
                far_repeat: false,
                ..TreeCfg::swarm(rng, false)
            };
            tree = gen_tree(rng, &cfg);
        }
        let k = 4 + rng.usize(3);
        Case17 {
            tree,
            plans: entropy_plans(rng, k),
            sched: IoSchedule::benign(rng, 48, true),
            repr: if rng.chance(1, 3) { rng.next_u64() | 1 } else { 0 },
            prelude: if rng.chance(1, 4) { 1 + rng.below(999) as u16 } else { 0 },
        }
    }

    fn execute(case: &Case17, _ctx: &Ctx) -> Outcome {
        let mut out = Outcome::default();
        let mut fp = Fp::default();
        let mut a = Allocator::new();
        let Ok(node) = crate::scen::interp2::to_alloc_repr(&mut a, &case.tree, case.repr, &mut out) else {
            return out;
        };
        let classic_len = model::ser_len(&case.tree);
        if case.prelude > 0 {
            // earlier calls in this thread that fail half-way; nothing is judged here
            let lim = (classic_len as usize).saturating_mul(case.prelude as usize) / 1000;
            let f1 = clvmr::serde::node_to_bytes_backrefs_limit(&a, node, lim).is_err();
            let failing = IoSchedule {
                steps: vec![],
                hard: Some((lim as u64, Some(crate::seams::IoKind::Other))),
            };
            let mut w = SimWriter::new(&failing);
            let f2 = node_to_stream_backrefs(&a, node, &mut w).is_err();
            out.count("fault.prior_call_failed", f1 as u64 + f2 as u64);
        }
        let mut first: Option<Vec<u8>> = None;
        for (i, plan) in case.plans.iter().enumerate() {
            let g = EntropyGuard::install(plan);
            let r = node_to_bytes_backrefs(&a, node);
            let st = g.stats();
            drop(g);
            out.evals += 1;
            out.count("fault.entropy.hash_salt_draws", st.hash_salt);
            let bytes = match r {
                Ok(b) => b,
                Err(e) => {
                    out.fail(Violation::new("serialize-ok", format!("node_to_bytes_backrefs failed: {}", err_name(&e))));
                    return fin(out, fp);
                }
            };
            match &first {
                None => first = Some(bytes),
                Some(f) => {
                    if *f != bytes {
                        out.fail(
                            Violation::new(
                                "identical-under-any-salt",
                                format!("output differs between entropy plan 0 and plan {i} ({:?}): {} vs {}", plan, hex_short(f), hex_short(&bytes)),
                            )
                            .with("what", "salt"),
                        );
                        return fin(out, fp);
                    }
                }
            }
        }
        let bytes = first.unwrap();
        fp.bytes(&bytes);
        // same plan again: any difference comes from a source the simulator does not own
        {
            let g = EntropyGuard::install(&case.plans[0]);
            let again = node_to_bytes_backrefs(&a, node);
            drop(g);
            out.evals += 1;
            if again.as_ref().ok() != Some(&bytes) {
                out.fail(Violation::new("identical-run-to-run", "two runs with the same simulated entropy produced different bytes".to_string()).with("what", "uncontrolled"));
                return fin(out, fp);
            }
        }
        // streaming through a writer with short writes / EINTR
        {
            let g = EntropyGuard::install(&case.plans[case.plans.len() - 1]);
            let mut w = SimWriter::new(&case.sched);
            let r = node_to_stream_backrefs(&a, node, &mut w);
            drop(g);
            out.evals += 1;
            out.count("fault.writer_short", w.stats.short);
            out.count("fault.writer_eintr", w.stats.intr);
            out.count("sim.bytes_written", w.stats.bytes);
            if r.is_err() || w.out != bytes {
                out.fail(Violation::new(
                    "stream-equals-bytes",
                    format!("node_to_stream_backrefs through a short-writing stream: result {:?}, {} bytes vs {}", r.map_err(|e| err_name(&e)), w.out.len(), bytes.len()),
                ));
                return fin(out, fp);
            }
        }
        // never grows
        if bytes.len() as u64 > classic_len {
            out.fail(Violation::new("never-grows", format!("back-reference form has {} bytes, classic form {}", bytes.len(), classic_len)));
            return fin(out, fp);
        }
        // canonical
        if !is_canonical_serialization(&bytes) {
            out.fail(Violation::new("canonical", format!("is_canonical_serialization is false for {}", hex_short(&bytes))));
            return fin(out, fp);
        }
        // independent decoder
        let mut nbackrefs = 0u64;
        match model::decode(&bytes, true, 8_000_000) {
            Ok(d) => {
                nbackrefs = d.toks.iter().filter(|t| t.kind == TokKind::BackRef).count() as u64;
                if d.consumed != bytes.len() || !d.tree.same_tree(&case.tree) {
                    out.fail(Violation::new(
                        "model-decodes-to-tree",
                        format!("reference back-reference decoder: consumed {} of {}, tree equal: {}", d.consumed, bytes.len(), d.tree.same_tree(&case.tree)),
                    ));
                    return fin(out, fp);
                }
                if !d.canonical_atoms {
                    out.fail(Violation::new("canonical", "an atom or path does not use its shortest length prefix".to_string()));
                    return fin(out, fp);
                }
            }
            Err(e) => {
                out.fail(Violation::new("model-decodes-to-tree", format!("reference decoder rejects the output: {e:?} ({})", hex_short(&bytes))));
                return fin(out, fp);
            }
        }
        out.count("probe.backrefs_emitted", nbackrefs);
        // the real decoder, then re-serialize
        let mut a2 = Allocator::new();
        match node_from_bytes_backrefs(&mut a2, &bytes) {
            Ok(n2) => {
                out.evals += 1;
                let Some(t2) = Sx::from_alloc(&a2, n2, 4_000_000) else {
                    return fin(out, fp);
                };
                if !t2.same_tree(&case.tree) {
                    out.fail(Violation::new("decodes-to-tree", format!("node_from_bytes_backrefs gives a different tree for {}", hex_short(&bytes))));
                    return fin(out, fp);
                }
                let g = EntropyGuard::install(&case.plans[1 % case.plans.len()]);
                let again = node_to_bytes_backrefs(&a2, n2);
                drop(g);
                out.evals += 1;
                if again.as_ref().ok() != Some(&bytes) {
                    out.fail(Violation::new(
                        "reserialize-same-bytes",
                        format!("re-serializing the decoded tree gives {:?} instead of {}", again.map(|b| hex_short(&b)).map_err(|e| err_name(&e)), hex_short(&bytes)),
                    ));
                    return fin(out, fp);
                }
            }
            Err(e) => {
                out.fail(Violation::new("decodes-to-tree", format!("node_from_bytes_backrefs rejects the serializer's output: {}", err_name(&e))));
                return fin(out, fp);
            }
        }
        out.nontrivial = nbackrefs > 0;
        fin(out, fp)
    }

    fn shrink(case: &Case17) -> Vec<Case17> {
        let mut v: Vec<Case17> = case.tree.shrink_candidates().into_iter().map(|t| Case17 { tree: t, ..case.clone() }).collect();
        if case.plans.len() > 2 {
            v.push(Case17 {
                plans: case.plans[..2].to_vec(),
                ..case.clone()
            });
        }
        if case.repr != 0 {
            v.push(Case17 { repr: 0, ..case.clone() });
        }
        if case.prelude != 0 {
            v.push(Case17 { prelude: 0, ..case.clone() });
        }
        v
    }

    fn sample(case: &Case17) -> Value {
        json!({"tree": case.tree.brief(160), "nodes": case.tree.nodes.len(), "entropy_plans": case.plans.len()})
    }
    fn rule() -> &'static str {
        "case = seeded sharing-heavy tree + K>=4 assignments of the identity-hasher salts (zero, ones, alternating, PRNG, low-bit-colliding, explicit words) + a benign writer schedule; in a third of the cases the tree is built with a per-atom representation plan; in a quarter the judged calls are preceded, in the same thread, by a size-limited serialization and a streaming serialization of the same tree that fail half-way. Oracles: bytes identical under every salt assignment and when a run is repeated; streaming writer output equal; reference decoder and node_from_bytes_backrefs both give the tree; canonical; not longer than classic; re-serialization reproduces the bytes. Non-trivial: output contains at least one back-reference."
    }
    fn default_runs(tier: Tier) -> u64 {
        match tier {
            Tier::Quick => 2_000_000,
            Tier::Thorough => 1_000_000_000,
        }
    }
    fn real_components() -> &'static [&'static str] {
        &["serde::node_to_bytes_backrefs / node_to_stream_backrefs", "ReadCacheLookup, ObjectCache, identity-hasher RandomState", "serde::node_from_bytes_backrefs", "serde::is_canonical_serialization"]
    }
    fn stub_components() -> &'static [&'static str] {
        &["entropy source for RandomState::default (hook)", "SimWriter", "reference back-reference decoder and classic length (sim/src/model.rs)"]
    }
    fn assumptions() -> &'static [&'static str] {
        &["std HashMap SipHash keys (E4) cannot be seeded; a leak would show as a difference between two runs under the same simulated entropy", "trees up to 700 nodes (quick) / 6000 nodes (thorough)"]
    }
    fn reach_probes() -> &'static [&'static str] {
        &["probe.backrefs_emitted", "fault.entropy.hash_salt_draws", "fault.writer_short"]
    }
}

fn fin(mut out: Outcome, fp: Fp) -> Outcome {
    out.fingerprint = fp.finish();
    out
}

// ---------------------------------------------------------------------------
// C19

pub const SENTINEL_MARK: &[u8] = b"\xf0\x9f<<SENTINEL>>\x9f\xf0";

#[derive(Clone, Debug, Serialize, Deserialize, PartialEq, Eq)]
pub enum HOp {
    /// add part #i
    Add(u32),
    /// undo with the token returned by the k-th Add call (selector over currently legal tokens)
    Undo(u32),
}

#[derive(Clone, Serialize, Deserialize)]
pub struct Part(#[serde(with = "sx_serde")] pub Sx);

#[derive(Clone, Serialize, Deserialize)]
pub struct Case19 {
    pub parts: Vec<Part>,
    pub history: Vec<HOp>,
    pub plans: Vec<EntropyPlan>,
    /// every Add call allocates its own copy of the part (distinct nodes, same content)
    #[serde(default)]
    pub fresh_nodes: bool,
}

fn count_marks(t: &Sx) -> u64 {
    // occurrences in the expanded tree
    let mut v = vec![0u64; t.nodes.len()];
    for i in 0..t.nodes.len() {
        v[i] = match &t.nodes[i] {
            SxNode::A(b) => (b.as_slice() == SENTINEL_MARK) as u64,
            SxNode::P(l, r) => v[*l as usize].saturating_add(v[*r as usize]),
        };
    }
    v[t.root as usize]
}

/// Assemble the retained parts: every sentinel occurrence of a part (depth-first, left to
/// right) is replaced by the assembly that starts at the next unused part. None if the parts
/// do not close all holes exactly, or if the expansion gets too large.
fn assemble(parts: &[&Sx]) -> Option<Sx> {
    fn has_marks(p: &Sx) -> Vec<bool> {
        let mut v = vec![false; p.nodes.len()];
        for i in 0..p.nodes.len() {
            v[i] = match &p.nodes[i] {
                SxNode::A(b) => b.as_slice() == SENTINEL_MARK,
                SxNode::P(l, r) => v[*l as usize] || v[*r as usize],
            };
        }
        v
    }
    fn fill(parts: &[&Sx], idx: &mut usize, t: &mut Sx, budget: &mut usize) -> Option<u32> {
        let p = *parts.get(*idx)?;
        *idx += 1;
        let marks = has_marks(p);
        let mut memo: std::collections::HashMap<u32, u32> = std::collections::HashMap::new();
        build(p, p.root, &marks, &mut memo, parts, idx, t, budget)
    }
    #[allow(clippy::too_many_arguments)]
    fn build(p: &Sx, n: u32, marks: &[bool], memo: &mut std::collections::HashMap<u32, u32>, parts: &[&Sx], idx: &mut usize, t: &mut Sx, budget: &mut usize) -> Option<u32> {
        if *budget == 0 {
            return None;
        }
        *budget -= 1;
        if !marks[n as usize]
            && let Some(x) = memo.get(&n)
        {
            return Some(*x);
        }
        let r = match &p.nodes[n as usize] {
            SxNode::A(b) if b.as_slice() == SENTINEL_MARK => fill(parts, idx, t, budget)?,
            SxNode::A(b) => t.push_atom(b),
            SxNode::P(l, r) => {
                let li = build(p, *l, marks, memo, parts, idx, t, budget)?;
                let ri = build(p, *r, marks, memo, parts, idx, t, budget)?;
                t.push_pair(li, ri)
            }
        };
        if !marks[n as usize] {
            memo.insert(n, r);
        }
        Some(r)
    }
    let mut t = Sx { nodes: Vec::new(), root: 0 };
    let mut idx = 0usize;
    let mut budget = 400_000usize;
    let root = fill(parts, &mut idx, &mut t, &mut budget)?;
    if idx != parts.len() {
        return None;
    }
    t.root = root;
    Some(t)
}

/// cut `t` at a random single occurrence: returns (outer with marker, inner)
pub fn cut_tree(rng: &mut Rng, t: &Sx, at_root_pct: u64) -> (Sx, Sx) {
    let t = t.compact();
    if rng.below(100) < at_root_pct {
        return (Sx::atom(SENTINEL_MARK), t);
    }
    let mut path: Vec<(u32, bool)> = Vec::new(); // (pair node, went right)
    let mut cur = t.root;
    loop {
        match t.nodes[cur as usize] {
            SxNode::A(_) => break,
            SxNode::P(l, r) => {
                if !path.is_empty() && rng.chance(1, 4) {
                    break;
                }
                let right = rng.chance(3, 5);
                path.push((cur, right));
                cur = if right { r } else { l };
            }
        }
    }
    let inner = t.subtree(cur);
    let mut o = t.clone();
    let mut repl = o.push_atom(SENTINEL_MARK);
    for (p, right) in path.iter().rev() {
        let SxNode::P(l, r) = o.nodes[*p as usize] else { unreachable!() };
        repl = if *right { o.push_pair(l, repl) } else { o.push_pair(repl, r) };
    }
    o.root = repl;
    (o.compact(), inner)
}

impl Scenario for C19 {
    const ID: &'static str = "C19";
    const LEVEL: &'static str = "exploration";
    type Case = Case19;

    fn generate(rng: &mut Rng, tier: Tier, _run: u64) -> Case19 {
        let thorough = tier == Tier::Thorough;
        let mut cfg = TreeCfg::swarm(rng, false);
        cfg.far_repeat = false;
        cfg.max_leaves = cfg.max_leaves.min(if thorough { 400 } else { 80 });
        cfg.share_pct = cfg.share_pct.max(30);
        cfg.huge_atoms = false;
        if rng.chance(3, 4) {
            cfg.medium_atoms = false;
        }
        let base = gen_tree(rng, &cfg);
        // split into parts in the order in which they have to be added (holes are filled
        // depth-first, left to right); 1/4 of the cases cut a part at two places at once
        fn split(rng: &mut Rng, t: Sx, budget: &mut u32, multi: bool, out: &mut Vec<Sx>) {
            if *budget == 0 || matches!(t.nodes[t.root as usize], SxNode::A(_)) && !rng.chance(1, 10) {
                out.push(t);
                return;
            }
            *budget -= 1;
            if multi
                && rng.chance(1, 2)
                && let SxNode::P(l, r) = t.compact().nodes[t.compact().root as usize]
            {
                let c = t.compact();
                let (ol, il) = cut_tree(rng, &c.subtree(l), 20);
                let (or, ir) = cut_tree(rng, &c.subtree(r), 20);
                let mut o = ol.clone();
                let lroot = o.root;
                let rroot = o.graft(&or);
                o.root = o.push_pair(lroot, rroot);
                out.push(o.compact());
                split(rng, il, budget, multi, out);
                split(rng, ir, budget, multi, out);
                return;
            }
            let (outer, inner) = cut_tree(rng, &t, 8);
            out.push(outer);
            split(rng, inner, budget, multi, out);
        }
        let multi = rng.chance(1, 4);
        let mut budget = 1 + rng.below(6) as u32;
        let mut parts: Vec<Sx> = Vec::new();
        split(rng, base, &mut budget, multi, &mut parts);
        let chain_len = parts.len();
        // alternatives: perturbed copies, a repeated list item, a bare terminator
        let nalt = rng.usize(4);
        for _ in 0..nalt {
            let src = parts[rng.usize(chain_len)].clone();
            let alt = if rng.bool() { perturb_tree(rng, &src, &cfg) } else { src };
            // perturbation must not destroy or duplicate the marker
            if count_marks(&alt) == count_marks(&parts[0]).min(1) || count_marks(&alt) <= 1 {
                parts.push(alt);
            }
        }
        parts.push(Sx::nil());
        // history
        let mut history = Vec::new();
        let hlen = 2 + rng.usize(if thorough { 28 } else { 18 });
        let mut next_chain = 0usize;
        for _ in 0..hlen {
            let c = rng.below(100);
            if c < 55 {
                // follow the chain (valid completion order)
                if next_chain < chain_len {
                    history.push(HOp::Add(next_chain as u32));
                    next_chain += 1;
                } else {
                    history.push(HOp::Undo(rng.next_u64() as u32));
                    next_chain = rng.usize(chain_len);
                }
            } else if c < 75 {
                history.push(HOp::Add(rng.usize(parts.len()) as u32));
            } else if c < 85 {
                // the same part again (list items)
                if let Some(HOp::Add(p)) = history.iter().rev().find(|h| matches!(h, HOp::Add(_))) {
                    history.push(HOp::Add(*p));
                } else {
                    history.push(HOp::Add(0));
                }
            } else {
                history.push(HOp::Undo(rng.next_u64() as u32));
            }
        }
        // try to complete at the end
        for _ in 0..3 {
            history.push(HOp::Add((parts.len() - 1) as u32));
        }
        let k = 4 + rng.usize(2);
        Case19 {
            parts: parts.into_iter().map(Part).collect(),
            history,
            plans: entropy_plans(rng, k),
            fresh_nodes: rng.chance(2, 3),
        }
    }

    fn execute(case: &Case19, _ctx: &Ctx) -> Outcome {
        let mut out = Outcome::default();
        let mut fp = Fp::default();
        if case.parts.is_empty() {
            return out;
        }
        // every part carries at most one marker in this scenario
        let marks: Vec<u64> = case.parts.iter().map(|p| count_marks(&p.0)).collect();
        if marks.iter().any(|m| *m > 4) {
            return out; // more sentinel occurrences per part than the generator ever produces
        }
        let mut a = Allocator::new();
        let sentinel = a.new_pair(NodePtr::NIL, NodePtr::NIL).unwrap();
        let mut nodes: Vec<NodePtr> = Vec::new();
        for p in &case.parts {
            let n = p.0.to_alloc_with(&mut a, &mut |a, b| if b == SENTINEL_MARK { Ok(sentinel) } else { a.new_atom(b) });
            match n {
                Ok(n) => nodes.push(n),
                Err(_) => return out,
            }
        }

        let mut reference: Option<Vec<Vec<u8>>> = None; // byte trajectory under plan 0
        let mut completed_checks = 0u64;
        for (pi, plan) in case.plans.iter().enumerate() {
            let g = EntropyGuard::install(plan);
            let mut ser = Serializer::new(Some(sentinel));
            // model state
            let mut retained: Vec<(u64, usize)> = Vec::new(); // (call id, part index)
            let mut holes: i64 = 1;
            struct Tok {
                undo: UndoState,
                prefix: Vec<u64>,
                bytes: Vec<u8>,
                holes: i64,
            }
            let mut tokens: Vec<Tok> = Vec::new();
            let mut call_id = 0u64;
            // node passed to the k-th add call (index = call id - 1)
            let mut added_nodes: Vec<NodePtr> = Vec::new();
            let mut traj: Vec<Vec<u8>> = Vec::new();
            // parts (by content) that were ever added at retained position i and later undone
            let mut undone_at: Vec<Vec<[u8; 32]>> = Vec::new();
            let part_ids: Vec<[u8; 32]> = case.parts.iter().map(|p| p.0.tree_hash()).collect();
            // parts that were added and later undone (any position)
            let mut undone_parts: Vec<usize> = Vec::new();
            // nodes (NodePtr) that were passed to an add call that was later undone
            let mut undone_nodes: Vec<NodePtr> = Vec::new();
            for (step, h) in case.history.iter().enumerate() {
                match h {
                    HOp::Add(p) => {
                        if holes == 0 {
                            out.count("op.skipped_add_after_done", (pi == 0) as u64);
                            continue; // adding after completion is not allowed
                        }
                        let p = *p as usize % case.parts.len();
                        let before = ser.get_ref().clone();
                        let this_node = if case.fresh_nodes {
                            match case.parts[p].0.to_alloc_with(&mut a, &mut |a, b| if b == SENTINEL_MARK { Ok(sentinel) } else { a.new_atom(b) }) {
                                Ok(n) => n,
                                Err(_) => {
                                    drop(g);
                                    return fin(out, fp);
                                }
                            }
                        } else {
                            nodes[p]
                        };
                        added_nodes.push(this_node);
                        let r = ser.add(&a, this_node);
                        out.evals += 1;
                        call_id += 1;
                        let (done, undo) = match r {
                            Ok(x) => x,
                            Err(e) => {
                                out.fail(Violation::new("add-ok", format!("step {step}: add failed with {}", err_name(&e))));
                                drop(g);
                                return fin(out, fp);
                            }
                        };
                        tokens.push(Tok {
                            undo,
                            prefix: retained.iter().map(|x| x.0).collect(),
                            bytes: before.clone(),
                            holes,
                        });
                        retained.push((call_id, p));
                        holes = holes - 1 + marks[p] as i64;
                        if done != (holes == 0) {
                            out.fail(Violation::new("done-flag", format!("step {step}: add returned done={done} but the model has {holes} open sentinel positions")));
                            drop(g);
                            return fin(out, fp);
                        }
                        let now = ser.get_ref();
                        if !now.starts_with(&before) || ser.size() != now.len() as u64 {
                            out.fail(Violation::new(
                                "add-appends",
                                format!("step {step}: add changed already written bytes or size() disagrees (size {} len {})", ser.size(), now.len()),
                            ));
                            drop(g);
                            return fin(out, fp);
                        }
                        if pi == 0 {
                            out.count("sim.adds", 1);
                        }
                        if done {
                            // decode and compare with the assembled tree
                            let bytes = ser.get_ref().clone();
                            let seq_parts: Vec<&Sx> = retained.iter().map(|(_, q)| &case.parts[*q].0).collect();
                            let Some(acc) = assemble(&seq_parts) else {
                                // expansion too large for the model: nothing to compare against
                                drop(g);
                                return fin(out, fp);
                            };
                            let multi_sentinel = retained.iter().any(|(_, q)| marks[*q] > 1);
                            // classification used to match the known finding narrowly
                            let divergent = retained.iter().enumerate().any(|(i, (_, q))| undone_at.get(i).map(|u| u.iter().any(|h| *h != part_ids[*q])).unwrap_or(false));
                            let any_undo = !undone_at.is_empty();
                            let classify = |v: Violation| -> Violation {
                                let seq: Vec<NodePtr> = retained.iter().map(|(c, _)| added_nodes[*c as usize - 1]).collect();
                                let fresh = fresh_serialization_ok(&a, sentinel, &seq, &acc);
                                // the same node (NodePtr) containing the sentinel added more than once
                                let mut repeat = "none";
                                let node_of = |c: u64| added_nodes[c as usize - 1];
                                for (i, (c, q)) in retained.iter().enumerate() {
                                    if marks[*q] >= 1 && retained.iter().skip(i + 1).any(|(c2, _)| node_of(*c2) == node_of(*c)) {
                                        let list_shape = match &case.parts[*q].0.nodes[case.parts[*q].0.root as usize] {
                                            SxNode::P(_, r) => matches!(&case.parts[*q].0.nodes[*r as usize], SxNode::A(b) if b.as_slice() == SENTINEL_MARK),
                                            SxNode::A(_) => true, // the bare sentinel
                                        };
                                        // all occurrences form one consecutive run?
                                        let first = retained.iter().position(|(x, _)| node_of(*x) == node_of(*c)).unwrap();
                                        let last = retained.iter().rposition(|(x, _)| node_of(*x) == node_of(*c)).unwrap();
                                        let consecutive = retained[first..=last].iter().all(|(x, _)| node_of(*x) == node_of(*c));
                                        if !(list_shape && consecutive) {
                                            repeat = "same-node-other";
                                            break;
                                        }
                                        repeat = "same-node-consecutive-list";
                                    }
                                }
                                // does an undone part share a sub-tree (serialized length >= 4, no sentinel
                                // inside) with a retained part? Stale links left by an undone add can only be
                                // reached from such a shared sub-tree.
                                let elig = |q: usize| -> Vec<[u8; 32]> { eligible_subtrees(&case.parts[q].0) };
                                let mut undone_set: Vec<[u8; 32]> = Vec::new();
                                for q in &undone_parts {
                                    undone_set.extend(elig(*q));
                                }
                                let overlap = retained.iter().any(|(_, q)| elig(*q).iter().any(|h| undone_set.contains(h)));
                                // ... or from a node that was itself added in an undone call and is added again
                                let node_readded = retained.iter().any(|(c, _)| undone_nodes.contains(&added_nodes[*c as usize - 1]));
                                let overlap = overlap || node_readded;
                                v.with("readd", if divergent { "divergent-after-undo" } else { "none-or-same" })
                                    .with("undo_before", if any_undo { "yes" } else { "no" })
                                    .with("multi_sentinel", if multi_sentinel { "yes" } else { "no" })
                                    .with("undo_reuse", if overlap { "yes" } else { "no" })
                                    .with("fresh_serializer", if fresh { "correct" } else { "also-wrong" })
                                    .with("repeat", repeat)
                            };
                            let mut a2 = Allocator::new();
                            match node_from_bytes_backrefs(&mut a2, &bytes) {
                                Ok(n2) => {
                                    let same = Sx::from_alloc(&a2, n2, 4_000_000).map(|t| t.same_tree(&acc)).unwrap_or(true);
                                    if !same {
                                        let v = classify(
                                            Violation::new("completed-decodes-to-assembled", format!("step {step}: completed output {} decodes to a different tree than the retained additions assemble to", hex_short(&bytes)))
                                                .with("decoder", "node_from_bytes_backrefs")
                                                .with("result", "different-tree"),
                                        );
                                        if let Some(k) = _ctx.matches_known("C19", &v) {
                                            if !out.known.contains(&k.id) {
                                                out.known.push(k.id.clone());
                                            }
                                            // the serializer's state is wrong from here on: stop this case
                                            drop(g);
                                            out.nontrivial = true;
                                            return fin(out, fp);
                                        }
                                        out.fail(v);
                                        drop(g);
                                        return fin(out, fp);
                                    }
                                }
                                Err(e) => {
                                    let v = classify(
                                        Violation::new("completed-decodes-to-assembled", format!("step {step}: completed output {} is rejected by node_from_bytes_backrefs: {}", hex_short(&bytes), err_name(&e)))
                                            .with("decoder", "node_from_bytes_backrefs")
                                            .with("result", "rejected"),
                                    );
                                    if let Some(k) = _ctx.matches_known("C19", &v) {
                                        if !out.known.contains(&k.id) {
                                            out.known.push(k.id.clone());
                                        }
                                        drop(g);
                                        out.nontrivial = true;
                                        return fin(out, fp);
                                    }
                                    out.fail(v);
                                    drop(g);
                                    return fin(out, fp);
                                }
                            }
                            match model::decode(&bytes, true, 8_000_000) {
                                Ok(d) if d.consumed == bytes.len() && d.tree.same_tree(&acc) => {
                                    if pi == 0 {
                                        out.count("probe.backrefs_emitted", d.toks.iter().filter(|t| t.kind == TokKind::BackRef).count() as u64);
                                    }
                                }
                                other => {
                                    out.fail(classify(
                                        Violation::new("completed-decodes-to-assembled", format!("step {step}: reference decoder disagrees on completed output {}: {:?}", hex_short(&bytes), other.map(|d| d.consumed)))
                                            .with("decoder", "model"),
                                    ));
                                    drop(g);
                                    return fin(out, fp);
                                }
                            }
                            completed_checks += 1;
                        }
                    }
                    HOp::Undo(sel) => {
                        let cur: Vec<u64> = retained.iter().map(|x| x.0).collect();
                        let legal: Vec<usize> = tokens.iter().enumerate().filter(|(_, t)| cur.starts_with(&t.prefix)).map(|(i, _)| i).collect();
                        if legal.is_empty() {
                            continue;
                        }
                        let ti = legal[*sel as usize % legal.len()];
                        let t = &tokens[ti];
                        ser.restore(t.undo.clone());
                        out.evals += 1;
                        if pi == 0 {
                            out.count("fault.undo", 1);
                            if t.prefix.len() + 1 < retained.len() {
                                out.count("fault.undo_multi_level", 1);
                            }
                            if holes == 0 {
                                out.count("fault.undo_after_completion", 1);
                            }
                        }
                        if ser.get_ref() != &t.bytes || ser.size() != t.bytes.len() as u64 {
                            out.fail(Violation::new(
                                "undo-restores-bytes",
                                format!("step {step}: after undo the serializer holds {} (size {}), before the undone call it held {}", hex_short(ser.get_ref()), ser.size(), hex_short(&t.bytes)),
                            ));
                            drop(g);
                            return fin(out, fp);
                        }
                        for (i, (_, q)) in retained.iter().enumerate().skip(t.prefix.len()) {
                            if undone_at.len() <= i {
                                undone_at.resize(i + 1, Vec::new());
                            }
                            if !undone_at[i].contains(&part_ids[*q]) {
                                undone_at[i].push(part_ids[*q]);
                            }
                            if !undone_parts.contains(q) {
                                undone_parts.push(*q);
                            }
                            undone_nodes.push(added_nodes[retained[i].0 as usize - 1]);
                        }
                        retained.truncate(t.prefix.len());
                        holes = t.holes;
                    }
                }
                traj.push(ser.get_ref().clone());
            }
            let st = g.stats();
            drop(g);
            if pi == 0 {
                out.count("fault.entropy.hash_salt_draws", st.hash_salt);
                out.count("fault.entropy.tree_salt_draws", st.tree_salt);
                for t in &traj {
                    fp.bytes(t);
                }
            }
            match &reference {
                None => reference = Some(traj),
                Some(r) => {
                    if *r != traj {
                        let at = r.iter().zip(traj.iter()).position(|(x, y)| x != y).unwrap_or(0);
                        out.fail(Violation::new(
                            "bytes-independent-of-salt",
                            format!("byte trajectory differs between entropy plan 0 and plan {pi} ({plan:?}) first at call {at}"),
                        ));
                        return fin(out, fp);
                    }
                }
            }
        }
        out.count("probe.completed_serializations_checked", completed_checks / case.plans.len().max(1) as u64);
        out.nontrivial = completed_checks > 0 && case.history.len() >= 3;
        fin(out, fp)
    }

    fn shrink(case: &Case19) -> Vec<Case19> {
        let mut v = Vec::new();
        let n = case.history.len();
        if n > 1 {
            v.push(Case19 {
                history: case.history[..n - 1].to_vec(),
                ..case.clone()
            });
        }
        for i in 0..n {
            let mut h = case.history.clone();
            h.remove(i);
            v.push(Case19 { history: h, ..case.clone() });
        }
        if case.plans.len() > 2 {
            v.push(Case19 {
                plans: case.plans[..2].to_vec(),
                ..case.clone()
            });
        }
        if !case.fresh_nodes {
            v.push(Case19 {
                fresh_nodes: true,
                ..case.clone()
            });
        }
        // shrink parts (keeping the marker count)
        for (i, p) in case.parts.iter().enumerate() {
            let m = count_marks(&p.0);
            for c in p.0.shrink_candidates().into_iter().take(60) {
                if count_marks(&c) == m {
                    let mut parts = case.parts.clone();
                    parts[i] = Part(c);
                    v.push(Case19 { parts, ..case.clone() });
                }
            }
        }
        v
    }

    fn sample(case: &Case19) -> Value {
        json!({
            "parts": case.parts.iter().take(4).map(|p| p.0.brief(80)).collect::<Vec<_>>(),
            "parts_total": case.parts.len(),
            "history": case.history.iter().take(16).map(|h| format!("{h:?}")).collect::<Vec<_>>(),
            "entropy_plans": case.plans.len(),
        })
    }
    fn rule() -> &'static str {
        "case = a seeded tree cut into a chain of 2..7 parts at single sentinel occurrences (any depth, including the root), plus alternative/perturbed parts and a bare terminator; a history of 2..30 Add(part)/Undo(token) calls where undo tokens are chosen among the tokens whose state is a prefix of the retained history (multi-level undo, re-use of a token, undo after completion, re-adding a different part); executed under K>=4 assignments of the hash salt and tree-cache salt. Oracles: undo restores exactly the bytes held before the undone call; add only appends; done flag matches the model; every completed output decodes (real decoder and reference decoder) to the tree assembled from the retained parts; byte trajectory identical under all entropy assignments. Non-trivial: at least one completed serialization checked."
    }
    fn default_runs(tier: Tier) -> u64 {
        match tier {
            Tier::Quick => 2_000_000,
            Tier::Thorough => 1_000_000_000,
        }
    }
    fn real_components() -> &'static [&'static str] {
        &["serde::Serializer (add / restore / size / get_ref)", "serde::TreeCache, PathBuilder, BitSet", "serde::node_from_bytes_backrefs"]
    }
    fn stub_components() -> &'static [&'static str] {
        &["entropy source for RandomState and the TreeCache SHA-1 salt (hooks)", "history model: retained parts, per-token byte snapshot, open-sentinel count", "reference back-reference decoder"]
    }
    fn assumptions() -> &'static [&'static str] {
        &[
            "3/4 of the cases use parts with at most one sentinel occurrence (the documented use of the API); 1/4 cut a part at two places at once (repeated sentinel inside one added tree)",
            "an undo token is used only while the state it was taken in is a prefix of the retained history",
            "no add after completion",
        ]
    }
    fn reach_probes() -> &'static [&'static str] {
        &["fault.undo", "fault.undo_multi_level", "fault.undo_after_completion", "probe.backrefs_emitted", "fault.entropy.tree_salt_draws"]
    }
}

pub struct C19;

/// tree hashes of the sub-trees of `t` that could be back-referenced: classic serialized length
/// >= 4 and no sentinel marker inside
fn eligible_subtrees(t: &Sx) -> Vec<[u8; 32]> {
    let c = t.compact();
    let hashes = c.tree_hashes();
    let mut len = vec![0u64; c.nodes.len()];
    let mut has_mark = vec![false; c.nodes.len()];
    let mut out = Vec::new();
    for i in 0..c.nodes.len() {
        match &c.nodes[i] {
            SxNode::A(b) => {
                has_mark[i] = b.as_slice() == SENTINEL_MARK;
                len[i] = model::ser_atom_len(b);
            }
            SxNode::P(l, r) => {
                has_mark[i] = has_mark[*l as usize] || has_mark[*r as usize];
                len[i] = 1u64.saturating_add(len[*l as usize]).saturating_add(len[*r as usize]);
            }
        }
        if !has_mark[i] && len[i] >= 4 {
            out.push(hashes[i]);
        }
    }
    out
}

/// the same retained additions on a fresh serializer (no undone call ever happened)
fn fresh_serialization_ok(a: &Allocator, sentinel: NodePtr, seq: &[NodePtr], expect: &Sx) -> bool {
    let mut ser = Serializer::new(Some(sentinel));
    let mut done = false;
    for n in seq {
        match ser.add(a, *n) {
            Ok((d, _)) => done = d,
            Err(_) => return false,
        }
    }
    if !done {
        return false;
    }
    let mut a2 = Allocator::new();
    match node_from_bytes_backrefs(&mut a2, ser.get_ref()) {
        Ok(n2) => Sx::from_alloc(&a2, n2, 4_000_000).map(|t| t.same_tree(expect)).unwrap_or(false),
        Err(_) => false,
    }
}
