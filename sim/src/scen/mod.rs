pub mod alloc;
pub mod c02;
pub mod c29;
pub mod de;
pub mod interp;
pub mod interp2;
pub mod ser;
pub mod selftest;
