pub mod alloc;
pub mod c29;
