pub mod alloc;
pub mod c29;
pub mod ser;
