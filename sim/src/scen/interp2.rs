//! C03 — evaluation is independent of heap history and atom representation.
//! C25 — the interpreter and every operator are total.

use crate::core::{Ctx, Outcome, Scenario, Tier, Violation};
use crate::prog::{self, AllocCfg, F_ENABLE_GC, ProgCfg, RunOut, fam, finish_run, run_nodes};
use crate::rng::{Fp, Rng};
use crate::scen::c02::gen_case_program;
use crate::scen::interp::{FaultKind, place_fault, trajectory};
use crate::seams::{EntropyGuard, EntropyPlan};
use crate::sx::{Sx, SxNode};
use crate::util::{err_name, sx_serde};
use crate::wgen::{TreeCfg, gen_tree};
use clvmr::allocator::{Allocator, NodePtr};
use clvmr::chia_dialect::{ChiaDialect, ClvmFlags};
use clvmr::error::EvalErr;
use clvmr::reduction::Response;
use serde::{Deserialize, Serialize};
use serde_json::{Value, json};

fn fin(mut out: Outcome, fp: Fp) -> Outcome {
    out.fingerprint = fp.finish();
    out
}

// ---------------------------------------------------------------------------
// atom representation plans

#[derive(Clone, Copy, Debug, PartialEq, Eq)]
enum Repr {
    Default,
    /// own heap buffer, even for small integers (two-part concat)
    HeapConcat,
    /// substring view into a longer junk atom
    SubstrView,
    /// via new_small_number / new_number when the bytes are a canonical integer
    ViaNumber,
}

/// materialise `t` with a per-atom representation drawn from `seed`
pub fn build_with_repr(a: &mut Allocator, t: &Sx, seed: u64, counts: &mut [u64; 4]) -> Result<NodePtr, EvalErr> {
    let mut r = Rng::new(seed);
    t.to_alloc_with(a, &mut |a, b| {
        let choice = match r.below(10) {
            0..=3 => Repr::Default,
            4..=5 => Repr::HeapConcat,
            6..=8 => Repr::SubstrView,
            _ => Repr::ViaNumber,
        };
        match choice {
            Repr::Default => {
                counts[0] += 1;
                a.new_atom(b)
            }
            Repr::HeapConcat => {
                counts[1] += 1;
                // split into two parts, at least one of them a heap atom unless empty
                let k = if b.is_empty() { 0 } else { r.usize(b.len() + 1) };
                let x = a.new_atom(&b[..k])?;
                let y = a.new_atom(&b[k..])?;
                a.new_concat(b.len(), &[x, y])
            }
            Repr::SubstrView => {
                counts[2] += 1;
                let pre = 1 + r.usize(5);
                let post = r.usize(4);
                let mut buf = vec![0xA5u8; pre];
                buf.extend_from_slice(b);
                buf.extend(std::iter::repeat_n(0x5Au8, post));
                // keep the parent a heap atom (5+ bytes or a non-canonical prefix)
                while buf.len() < 5 {
                    buf.push(0x77);
                }
                let parent = a.new_atom(&buf)?;
                a.new_substr(parent, pre as u32, (pre + b.len()) as u32)
            }
            Repr::ViaNumber => {
                counts[3] += 1;
                match crate::model::small_int_view(b) {
                    Some(v) => a.new_small_number(v),
                    None => {
                        // canonical big integers go through new_number, everything else as bytes
                        let canon = !b.is_empty() && !((b[0] == 0 && (b.len() == 1 || b[1] & 0x80 == 0)) || (b[0] == 0xff && b.len() > 1 && b[1] & 0x80 != 0));
                        if canon && b.len() <= 64 {
                            a.new_number(num_bigint::BigInt::from_signed_bytes_be(b))
                        } else {
                            a.new_atom(b)
                        }
                    }
                }
            }
        }
    })
}

/// `seed` 0: every atom through new_atom; otherwise the representation plan of `seed`
pub fn to_alloc_repr(a: &mut Allocator, t: &Sx, seed: u64, out: &mut Outcome) -> Result<NodePtr, EvalErr> {
    if seed == 0 {
        return t.to_alloc(a);
    }
    let mut counts = [0u64; 4];
    let r = build_with_repr(a, t, seed, &mut counts);
    out.count("repr.default", counts[0]);
    out.count("repr.heap_concat", counts[1]);
    out.count("repr.substr_view", counts[2]);
    out.count("repr.via_number", counts[3]);
    r
}

// ---------------------------------------------------------------------------
// C03

pub struct C03;

#[derive(Clone, Serialize, Deserialize)]
pub struct ProgEnv {
    #[serde(with = "sx_serde")]
    pub prog: Sx,
    #[serde(with = "sx_serde")]
    pub env: Sx,
    pub flags: u32,
    pub max_cost: u64,
}

#[derive(Clone, Serialize, Deserialize)]
pub enum Hist {
    Junk(#[serde(with = "sx_serde")] Sx),
    /// an earlier run on the same allocator (may fail); `true`: wrap in checkpoint / restore
    Run(ProgEnv, bool),
    Checkpoint,
    Restore,
}

#[derive(Clone, Serialize, Deserialize)]
pub struct Case03 {
    pub history: Vec<Hist>,
    pub target: ProgEnv,
    pub repr_seed: u64,
    pub plans: Vec<EntropyPlan>,
    /// heap limit of the long-lived allocator (so that earlier runs can fail with out-of-memory)
    pub heap_limit: Option<u64>,
}

fn gen_progenv(rng: &mut Rng, thorough: bool, bls_bias: bool) -> ProgEnv {
    let mut cfg = ProgCfg::swarm(rng);
    if !thorough {
        cfg.max_depth = cfg.max_depth.min(4);
    }
    if bls_bias {
        cfg.families |= fam::BLS;
    } else if !rng.chance(1, 6) {
        cfg.families &= !fam::BLS;
    }
    cfg.families |= fam::ARITH;
    let flags = prog::random_flags(rng, true, true) | if rng.chance(1, 3) { F_ENABLE_GC } else { 0 };
    let mut g = prog::gen_program(rng, &cfg);
    if !g.guard_cost_atoms.is_empty() {
        prog::calibrate_guards(&mut g, flags);
    }
    ProgEnv {
        prog: g.prog.compact(),
        env: g.env,
        flags,
        max_cost: 0,
    }
}

impl Scenario for C03 {
    const ID: &'static str = "C03";
    const LEVEL: &'static str = "exploration";
    type Case = Case03;

    fn generate(rng: &mut Rng, tier: Tier, _run: u64) -> Case03 {
        let thorough = tier == Tier::Thorough;
        let bls = rng.chance(1, 6);
        let mut target = gen_progenv(rng, thorough, bls);
        // budget: unlimited, or at / around the real cost (so that cost-exceeded outcomes are compared too)
        let refrun = prog::run_once(&target.prog, &target.env, target.flags, 0, &AllocCfg::unlimited(), &EntropyPlan::Zero, 50_000);
        let traj = trajectory(&refrun);
        if rng.chance(1, 3) && !traj.is_empty() {
            // at a step boundary (+-1), or somewhere inside the operator that runs at that step
            let i = rng.usize(traj.len());
            let c = traj[i].cost;
            let inside = rng.bool();
            target.max_cost = match traj.get(i + 1) {
                Some(n) if inside && n.cost > c + 1 => c + 1 + rng.below(n.cost - c - 1),
                // the last step (the run ended or failed inside it): some way into that operator
                None if inside => c + 1 + rng.below(1200),
                _ => (c + rng.below(3)).saturating_sub(1),
            }
            .max(1);
        }
        let mut history = Vec::new();
        let hlen = rng.usize(if thorough { 12 } else { 7 });
        let mut open_cp = false;
        for _ in 0..hlen {
            match rng.below(10) {
                0..=3 => {
                    let cfg = TreeCfg {
                        max_leaves: 1 + rng.usize(20),
                        medium_atoms: rng.chance(1, 3),
                        ..TreeCfg::small()
                    };
                    history.push(Hist::Junk(gen_tree(rng, &cfg)));
                }
                4..=7 => {
                    let mut pe = gen_progenv(rng, false, bls);
                    // earlier runs are often aborted: budget at a checkpoint of their own trajectory
                    if rng.chance(1, 2) {
                        let r = prog::run_once(&pe.prog, &pe.env, pe.flags, 0, &AllocCfg::unlimited(), &EntropyPlan::Zero, 20_000);
                        let t = trajectory(&r);
                        if !t.is_empty() {
                            pe.max_cost = t[rng.usize(t.len())].cost.max(1);
                        }
                    }
                    history.push(Hist::Run(pe, rng.chance(1, 3)));
                }
                8 => {
                    if !open_cp {
                        history.push(Hist::Checkpoint);
                        open_cp = true;
                    }
                }
                _ => {
                    if open_cp {
                        history.push(Hist::Restore);
                        open_cp = false;
                    }
                }
            }
        }
        Case03 {
            history,
            target,
            repr_seed: rng.next_u64(),
            plans: crate::seams::entropy_plans(rng, 4),
            heap_limit: if rng.chance(1, 5) { Some(20_000 + rng.below(200_000)) } else { None },
        }
    }

    fn execute(case: &Case03, _ctx: &Ctx) -> Outcome {
        let mut out = Outcome::default();
        let mut fp = Fp::default();
        let t = &case.target;
        // reference: fresh allocator, default representation, all-zero entropy
        let reference = prog::run_once(&t.prog, &t.env, t.flags, t.max_cost, &AllocCfg::unlimited(), &EntropyPlan::Zero, 0);
        out.evals += 1;
        fp.str(&reference.key());
        fp.u64(t.flags as u64);
        if reference.setup_failed || reference.is_alloc_limit_err() {
            return fin(out, fp);
        }
        // the long-lived allocator and its history
        let mut a = match case.heap_limit {
            Some(l) => Allocator::new_limited(l as usize),
            None => Allocator::new(),
        };
        let mut cp = None;
        for h in &case.history {
            match h {
                Hist::Junk(tree) => {
                    let _ = tree.to_alloc(&mut a);
                    out.count("fault.history.junk", 1);
                }
                Hist::Run(pe, wrap) => {
                    let inner_cp = if *wrap { Some(a.checkpoint()) } else { None };
                    let d = ChiaDialect::new(ClvmFlags::from_bits_truncate(pe.flags));
                    let r = prog::run_dialect(&mut a, &d, &pe.prog, &pe.env, pe.max_cost, &EntropyPlan::Prng(case.repr_seed ^ 0x55), 0);
                    out.evals += 1;
                    match &r.res {
                        Ok(_) => out.count("fault.history.run_ok", 1),
                        Err((k, _)) => out.count(&format!("fault.history.run_failed.{k}"), 1),
                    }
                    if let Some(c) = inner_cp {
                        a.restore_checkpoint(&c);
                        out.count("fault.history.restore_after_run", 1);
                    }
                }
                Hist::Checkpoint => cp = Some(a.checkpoint()),
                Hist::Restore => {
                    if let Some(c) = cp.take() {
                        a.restore_checkpoint(&c);
                        out.count("fault.history.restore", 1);
                    }
                }
            }
        }
        // the target, re-encoded, under each entropy stream
        let d = ChiaDialect::new(ClvmFlags::from_bits_truncate(t.flags));
        for (i, plan) in case.plans.iter().enumerate() {
            let mut counts = [0u64; 4];
            let built = build_with_repr(&mut a, &t.prog, case.repr_seed.wrapping_add(i as u64), &mut counts)
                .and_then(|p| build_with_repr(&mut a, &t.env, case.repr_seed.wrapping_add(1000 + i as u64), &mut counts).map(|e| (p, e)));
            let (p, e) = match built {
                Ok(x) => x,
                Err(_) => return fin(out, fp), // the long-lived allocator is full: excluded by the statement
            };
            if i == 0 {
                out.count("fault.repr.default", counts[0]);
                out.count("fault.repr.heap_concat", counts[1]);
                out.count("fault.repr.substr_view", counts[2]);
                out.count("fault.repr.via_number", counts[3]);
            }
            let r: RunOut = run_nodes(&mut a, &d, p, e, t.max_cost, plan, 0);
            out.evals += 1;
            out.count("fault.entropy.add_split_draws", r.entropy.add_split);
            out.count("fault.entropy.sub_split_draws", r.entropy.sub_split);
            if r.is_alloc_limit_err() {
                return fin(out, fp);
            }
            if r.key() != reference.key() {
                let what = match (&reference.res, &r.res) {
                    (Ok((c0, _, _)), Ok((c1, _, _))) => {
                        if c0 != c1 {
                            "cost"
                        } else {
                            "tree"
                        }
                    }
                    (Err(_), Err(_)) => "error-kind",
                    _ => "success-vs-failure",
                };
                out.fail(
                    Violation::new(
                        "history-and-representation-independent",
                        format!("fresh allocator / default encoding / zero entropy: {}; after the history, re-encoded, entropy plan {i} ({plan:?}): {}", reference.brief(), r.brief()),
                    )
                    .with("diff", what),
                );
                return fin(out, fp);
            }
        }
        out.nontrivial = !case.history.is_empty() && case.target.prog.nodes.len() >= 3;
        if let Ok((c, _, _)) = &reference.res {
            out.count("sim.vm_cost", (*c).min(1 << 40));
        }
        fin(out, fp)
    }

    fn shrink(case: &Case03) -> Vec<Case03> {
        let mut v = Vec::new();
        for i in 0..case.history.len() {
            let mut h = case.history.clone();
            h.remove(i);
            v.push(Case03 { history: h, ..case.clone() });
        }
        if case.plans.len() > 1 {
            for i in 0..case.plans.len() {
                v.push(Case03 {
                    plans: vec![case.plans[i].clone()],
                    ..case.clone()
                });
            }
        }
        if case.heap_limit.is_some() {
            v.push(Case03 {
                heap_limit: None,
                ..case.clone()
            });
        }
        for t in case.target.prog.shrink_candidates().into_iter().take(200) {
            v.push(Case03 {
                target: ProgEnv {
                    prog: t,
                    ..case.target.clone()
                },
                ..case.clone()
            });
        }
        for t in case.target.env.shrink_candidates().into_iter().take(30) {
            v.push(Case03 {
                target: ProgEnv {
                    env: t,
                    ..case.target.clone()
                },
                ..case.clone()
            });
        }
        v
    }

    fn sample(case: &Case03) -> Value {
        let hist: Vec<String> = case
            .history
            .iter()
            .map(|h| match h {
                Hist::Junk(t) => format!("Junk({} nodes)", t.nodes.len()),
                Hist::Run(pe, w) => format!("Run(budget {}, flags {:#x}, restore_after={w}): {}", pe.max_cost, pe.flags, pe.prog.brief(60)),
                Hist::Checkpoint => "Checkpoint".into(),
                Hist::Restore => "Restore".into(),
            })
            .collect();
        json!({"history": hist, "target": case.target.prog.brief(200), "env": case.target.env.brief(60), "flags": format!("{:#x}", case.target.flags), "budget": case.target.max_cost, "heap_limit": case.heap_limit})
    }
    fn rule() -> &'static str {
        "case = the life of one long-lived allocator: up to 12 history events (junk trees; earlier runs of other generated programs, half of them aborted by a budget placed at one of their own cost checkpoints, a third followed by restore_checkpoint; checkpoint / restore pairs; optionally a heap limit so that earlier runs can die with out-of-memory), then the target program, whose atoms are re-encoded per atom (default / own heap buffer via two-part concat / substring view into a junk atom / via new_small_number or new_number), run under 4 entropy streams for the add/sub accumulator split. Reference: the same target on a fresh Allocator::new(), default encoding, all-zero entropy. Oracle: identical cost, result tree and error kind (skipped when either side reports an allocator limit). BLS programs share one pool of points so that earlier runs and the target meet in the validated-point cache. Non-trivial: at least one history event and a target program of >= 3 nodes; distinct = fingerprints of (reference outcome, flags)."
    }
    fn default_runs(tier: Tier) -> u64 {
        match tier {
            Tier::Quick => 4_000_000,
            Tier::Thorough => 2_000_000_000,
        }
    }
    fn real_components() -> &'static [&'static str] {
        &["run_program + ChiaDialect + all operators", "Allocator (all atom representations, checkpoints, validated G1/G2 caches)", "op_add / op_subtract accumulator split"]
    }
    fn stub_components() -> &'static [&'static str] {
        &["entropy source for the accumulator split (hook)", "per-atom representation plan", "history generator"]
    }
    fn assumptions() -> &'static [&'static str] {
        &["the reference is the real code in its trivial configuration: a bug common to both is invisible", "comparison skipped when either run reports OutOfMemory / TooManyAtoms / TooManyPairs, as the statement excludes those"]
    }
    fn reach_probes() -> &'static [&'static str] {
        &[
            "fault.entropy.add_split_draws",
            "fault.entropy.sub_split_draws",
            "fault.repr.heap_concat",
            "fault.repr.substr_view",
            "fault.repr.via_number",
            "fault.history.run_failed.CostExceeded",
            "fault.history.restore_after_run",
            "fault.history.junk",
        ]
    }
}

// ---------------------------------------------------------------------------
// C25

pub struct C25;

#[derive(Clone, Serialize, Deserialize)]
pub enum Case25 {
    Program {
        #[serde(with = "sx_serde")]
        prog: Sx,
        #[serde(with = "sx_serde")]
        env: Sx,
        flags: u32,
        max_cost: u64,
        alloc: AllocCfg,
        repr_seed: u64,
        entropy: EntropyPlan,
    },
    Operator {
        op: u32,
        #[serde(with = "sx_serde")]
        args: Sx,
        flags: u32,
        max_cost: u64,
        alloc: AllocCfg,
        repr_seed: u64,
    },
}

type OpFn = fn(&mut Allocator, NodePtr, u64, ClvmFlags) -> Response;

fn op_table() -> Vec<(&'static str, OpFn)> {
    use clvmr::bls_ops::*;
    use clvmr::core_ops::*;
    use clvmr::keccak256_ops::op_keccak256;
    use clvmr::more_ops::*;
    use clvmr::secp_ops::*;
    use clvmr::sha_tree_op::op_sha256_tree;
    vec![
        ("if", op_if as OpFn),
        ("cons", op_cons),
        ("first", op_first),
        ("rest", op_rest),
        ("listp", op_listp),
        ("raise", op_raise),
        ("eq", op_eq),
        ("gr_bytes", op_gr_bytes),
        ("sha256", op_sha256),
        ("substr", op_substr),
        ("strlen", op_strlen),
        ("concat", op_concat),
        ("add", op_add),
        ("subtract", op_subtract),
        ("multiply", op_multiply),
        ("div", op_div),
        ("divmod", op_divmod),
        ("gr", op_gr),
        ("ash", op_ash),
        ("lsh", op_lsh),
        ("logand", op_logand),
        ("logior", op_logior),
        ("logxor", op_logxor),
        ("lognot", op_lognot),
        ("point_add", op_point_add),
        ("pubkey_for_exp", op_pubkey_for_exp),
        ("not", op_not),
        ("any", op_any),
        ("all", op_all),
        ("coinid", op_coinid),
        ("g1_subtract", op_bls_g1_subtract),
        ("g1_multiply", op_bls_g1_multiply),
        ("g1_negate", op_bls_g1_negate),
        ("g2_add", op_bls_g2_add),
        ("g2_subtract", op_bls_g2_subtract),
        ("g2_multiply", op_bls_g2_multiply),
        ("g2_negate", op_bls_g2_negate),
        ("map_to_g1", op_bls_map_to_g1),
        ("map_to_g2", op_bls_map_to_g2),
        ("pairing_identity", op_bls_pairing_identity),
        ("bls_verify", op_bls_verify),
        ("modpow", op_modpow),
        ("mod", op_mod),
        ("keccak256", op_keccak256),
        ("sha256_tree", op_sha256_tree),
        ("secp256k1_verify", op_secp256k1_verify),
        ("secp256r1_verify", op_secp256r1_verify),
    ]
}

fn gen_args(rng: &mut Rng) -> Sx {
    // an argument list: mostly proper lists of atoms of interesting classes, sometimes arbitrary trees
    let mut t = Sx {
        nodes: vec![],
        root: 0,
    };
    if rng.chance(1, 8) {
        return gen_tree(rng, &TreeCfg::small());
    }
    let n = rng.usize(5);
    let (g1, g2) = prog::bls_points();
    let mut items = Vec::new();
    // 1/5 of the lists: every item is an integer at a machine-word boundary
    let hot = rng.chance(1, 5);
    for _ in 0..n {
        let b: Vec<u8> = match rng.below(13) {
            _ if hot => prog::boundary_int(rng, true),
            12 => prog::boundary_int(rng, false),
            0 => vec![],
            1 => vec![rng.below(256) as u8],
            2 => prog::int_bytes(rng.below(100000) as i128 - 50000),
            3 => {
                let k = 1 + rng.usize(40);
                rng.bytes(k)
            }
            4 => rng.bytes(32),
            5 => rng.pick(g1).to_vec(),
            6 => rng.pick(g2).to_vec(),
            7 => {
                let k = 600 + rng.usize(3000);
                rng.bytes(k)
            }
            8 => {
                let mut b = prog::int_bytes(rng.below(1 << 30) as i128);
                b.insert(0, 0);
                b
            }
            9 => rng.bytes(48),
            10 => rng.bytes(33),
            _ => rng.bytes(64),
        };
        let a = t.push_atom(&b);
        if rng.chance(1, 12) {
            let p = t.push_pair(a, a);
            items.push(p);
        } else {
            items.push(a);
        }
    }
    let mut tail = if rng.chance(1, 15) { t.push_atom(&[1]) } else { t.push_atom(&[]) };
    for i in items.iter().rev() {
        tail = t.push_pair(*i, tail);
    }
    t.root = tail;
    t
}

impl Scenario for C25 {
    const ID: &'static str = "C25";
    const LEVEL: &'static str = "exploration";
    type Case = Case25;

    fn generate(rng: &mut Rng, tier: Tier, _run: u64) -> Case25 {
        let thorough = tier == Tier::Thorough;
        let flags_word = |rng: &mut Rng| -> u32 {
            match rng.below(4) {
                0 => rng.next_u64() as u32,
                1 => prog::random_flags(rng, true, true) | (rng.next_u64() as u32 & 0xffff_c080),
                _ => prog::random_flags(rng, true, true) | if rng.chance(1, 3) { F_ENABLE_GC } else { 0 },
            }
        };
        if rng.chance(1, 3) {
            let n = op_table().len() as u32;
            let args = gen_args(rng);
            let alloc = match rng.below(6) {
                0 => AllocCfg {
                    heap_limit: Some(1 + rng.below(6000)),
                    ghost_atoms: 0,
                    ghost_pairs: 0,
                    junk_atoms: 0,
                },
                1 => AllocCfg {
                    heap_limit: None,
                    ghost_atoms: 62_500_000 - 2 - rng.below(12),
                    ghost_pairs: 0,
                    junk_atoms: 0,
                },
                2 => AllocCfg {
                    heap_limit: None,
                    ghost_atoms: 0,
                    ghost_pairs: 62_500_000 - rng.below(12),
                    junk_atoms: 0,
                },
                _ => AllocCfg::unlimited(),
            };
            return Case25::Operator {
                op: rng.below(n as u64) as u32,
                args,
                flags: flags_word(rng),
                max_cost: *rng.pick(&[0u64, 1, 100, 1000, 50_000, 10_000_000, u64::MAX]),
                alloc,
                repr_seed: rng.next_u64(),
            };
        }
        // a quarter of the programs: heap reclamation switched on and the shapes that make it run
        // (as in C04), so that the value-preserving restore is part of the totality check
        let gc_mode = rng.chance(1, 4);
        let (g, flags) = if gc_mode {
            let mut cfg = prog::ProgCfg::swarm(rng);
            cfg.families |= fam::GCSHAPES | fam::BIG | fam::APPLY;
            if !thorough {
                cfg.max_depth = cfg.max_depth.min(4);
            }
            if !rng.chance(1, 5) {
                cfg.families &= !fam::BLS;
            }
            let flags = prog::random_flags(rng, true, true) | F_ENABLE_GC;
            let mut g = prog::gen_program(rng, &cfg);
            if !g.guard_cost_atoms.is_empty() {
                prog::calibrate_guards(&mut g, flags);
            }
            (g, flags)
        } else {
            let (g, _) = gen_case_program(rng, thorough, true, true, true);
            (g, flags_word(rng))
        };
        let entropy = if rng.bool() { EntropyPlan::Zero } else { EntropyPlan::Prng(rng.next_u64()) };
        // finite budgets only: random programs may loop
        let big: u64 = 30_000_000;
        // 1/4: an atom-heavy host allocator
        let junk = if rng.chance(1, 4) { 10 + rng.below(300) as u32 } else { 0 };
        let base = AllocCfg {
            junk_atoms: junk,
            ..AllocCfg::unlimited()
        };
        let reference = prog::run_once(&g.prog, &g.env, flags, big, &base, &entropy, 60_000);
        let traj = trajectory(&reference);
        let (fault, budget, mut alloc) = place_fault(rng, &traj);
        alloc.junk_atoms = junk;
        Case25::Program {
            prog: g.prog.compact(),
            env: g.env,
            flags,
            max_cost: if fault == FaultKind::Budget { budget.min(big) } else { big },
            alloc,
            repr_seed: rng.next_u64(),
            entropy,
        }
    }

    fn execute(case: &Case25, _ctx: &Ctx) -> Outcome {
        let mut out = Outcome::default();
        let mut fp = Fp::default();
        match case {
            Case25::Program {
                prog,
                env,
                flags,
                max_cost,
                alloc,
                repr_seed,
                entropy,
            } => {
                let Some(mut a) = alloc.build() else { return out };
                let cp = a.checkpoint();
                let mut counts = [0u64; 4];
                let built = build_with_repr(&mut a, prog, *repr_seed, &mut counts).and_then(|p| build_with_repr(&mut a, env, repr_seed ^ 7, &mut counts).map(|e| (p, e)));
                let Ok((p, e)) = built else {
                    out.count("fault.setup_hit_cap", 1);
                    return fin(out, fp);
                };
                let d = ChiaDialect::new(ClvmFlags::from_bits_truncate(*flags));
                let r = run_nodes(&mut a, &d, p, e, (*max_cost).max(1), entropy, 0);
                out.evals += 1;
                fp.str(&r.key());
                fp.u64(*flags as u64);
                match &r.res {
                    Ok(_) => out.count("probe.run_ok", 1),
                    Err((k, m)) => {
                        out.count(&format!("fault.run_failed.{k}"), 1);
                        if k == "InternalError" {
                            out.fail(Violation::new("no-internal-error", format!("run_program reported {m}")).with("where", "run_program"));
                            return fin(out, fp);
                        }
                    }
                }
                // recovery: the same allocator, rolled back, still evaluates a sentinel program correctly
                a.restore_checkpoint(&cp);
                let sentinel_prog = {
                    // (+ (q . 2) (q . 3))
                    let mut t = Sx { nodes: vec![], root: 0 };
                    let one = t.push_atom(&[1]);
                    let two = t.push_atom(&[2]);
                    let three = t.push_atom(&[3]);
                    let q2 = t.push_pair(one, two);
                    let q3 = t.push_pair(one, three);
                    let l = t.push_list(&[q2, q3]);
                    let plus = t.push_atom(&[16]);
                    t.root = t.push_pair(plus, l);
                    t
                };
                let s = prog::run_dialect(&mut a, &ChiaDialect::new(ClvmFlags::empty()), &sentinel_prog, &Sx::nil(), 0, &EntropyPlan::Zero, 0);
                out.evals += 1;
                match &s.res {
                    Ok((_, _, Some(t))) if matches!(&t.nodes[t.root as usize], SxNode::A(b) if b == &[5u8]) => {}
                    _ if s.is_alloc_limit_err() || s.setup_failed => {}
                    other => {
                        out.fail(Violation::new(
                            "recovers-after-faulted-run",
                            format!("after {} and a restore, (+ 2 3) on the same allocator gives {:?}", r.brief(), other.as_ref().map(|x| x.0).map_err(|e| e.0.clone())),
                        ));
                        return fin(out, fp);
                    }
                }
                out.nontrivial = true;
            }
            Case25::Operator {
                op,
                args,
                flags,
                max_cost,
                alloc,
                repr_seed,
            } => {
                let table = op_table();
                let (name, f) = table[*op as usize % table.len()];
                let Some(mut a) = alloc.build() else { return out };
                let mut counts = [0u64; 4];
                let Ok(n) = build_with_repr(&mut a, args, *repr_seed, &mut counts) else {
                    out.count("fault.setup_hit_cap", 1);
                    return fin(out, fp);
                };
                let g = EntropyGuard::install(&EntropyPlan::Prng(*repr_seed));
                let r = f(&mut a, n, *max_cost, ClvmFlags::from_bits_truncate(*flags));
                drop(g);
                out.evals += 1;
                let res = finish_run(&a, r);
                fp.str(name);
                fp.str(&match &res {
                    Ok((c, h, _)) => format!("ok{c}{}", hex::encode(&h[..4])),
                    Err((k, _)) => k.clone(),
                });
                out.count(&format!("probe.op.{name}"), 1);
                if let Err((k, m)) = &res {
                    out.count(&format!("fault.op_failed.{k}"), 1);
                    if k == "InternalError" {
                        out.fail(Violation::new("no-internal-error", format!("operator {name} reported {m}")).with("where", name));
                        return fin(out, fp);
                    }
                }
                out.nontrivial = args.nodes.len() >= 2;
            }
        }
        let _ = err_name;
        fin(out, fp)
    }

    fn shrink(case: &Case25) -> Vec<Case25> {
        let mut v = Vec::new();
        match case {
            Case25::Program {
                prog,
                env,
                flags,
                max_cost,
                alloc,
                repr_seed,
                entropy,
            } => {
                for t in prog.shrink_candidates().into_iter().take(200) {
                    v.push(Case25::Program {
                        prog: t,
                        env: env.clone(),
                        flags: *flags,
                        max_cost: *max_cost,
                        alloc: alloc.clone(),
                        repr_seed: *repr_seed,
                        entropy: entropy.clone(),
                    });
                }
                if *alloc != AllocCfg::unlimited() {
                    v.push(Case25::Program {
                        prog: prog.clone(),
                        env: env.clone(),
                        flags: *flags,
                        max_cost: *max_cost,
                        alloc: AllocCfg::unlimited(),
                        repr_seed: *repr_seed,
                        entropy: entropy.clone(),
                    });
                }
            }
            Case25::Operator {
                op,
                args,
                flags,
                max_cost,
                alloc,
                repr_seed,
            } => {
                for t in args.shrink_candidates().into_iter().take(200) {
                    v.push(Case25::Operator {
                        op: *op,
                        args: t,
                        flags: *flags,
                        max_cost: *max_cost,
                        alloc: alloc.clone(),
                        repr_seed: *repr_seed,
                    });
                }
                if *alloc != AllocCfg::unlimited() {
                    v.push(Case25::Operator {
                        op: *op,
                        args: args.clone(),
                        flags: *flags,
                        max_cost: *max_cost,
                        alloc: AllocCfg::unlimited(),
                        repr_seed: *repr_seed,
                    });
                }
            }
        }
        v
    }

    fn sample(case: &Case25) -> Value {
        match case {
            Case25::Program { prog, flags, max_cost, alloc, .. } => json!({"kind": "program", "program": prog.brief(200), "flags": format!("{flags:#x}"), "budget": max_cost, "alloc": format!("{alloc:?}")}),
            Case25::Operator { op, args, flags, max_cost, alloc, .. } => {
                json!({"kind": "operator", "op": op_table()[*op as usize % op_table().len()].0, "args": args.brief(160), "flags": format!("{flags:#x}"), "budget": max_cost, "alloc": format!("{alloc:?}")})
            }
        }
    }
    fn rule() -> &'static str {
        "two case kinds. Program: seeded typed program (type noise, 1/64 random trees) with atoms re-encoded per atom, any 32-bit flag word, on an allocator with a fault placed from the reference trajectory (budget at a step, heap limit at a step's heap size, atom / pair cap at a step, or none), finite budget. Operator: each of the 47 public operator functions called directly on seeded argument lists (interesting atom classes, improper lists, pairs where atoms are expected, BLS points), any flag word, budgets from 0 to u64::MAX, allocators 0..12 allocations away from each cap. Oracle: the call returns (panics are caught, aborts / stack overflows / hangs are seen by the parent as a dead worker), never with InternalError; after a faulted run and a restore the same allocator evaluates (+ 2 3) = 5. Non-trivial: every program case; operator cases with >= 2 argument nodes."
    }
    fn default_runs(tier: Tier) -> u64 {
        match tier {
            Tier::Quick => 10_000_000,
            Tier::Thorough => 4_000_000_000,
        }
    }
    fn real_components() -> &'static [&'static str] {
        &["run_program + ChiaDialect", "all 47 public operator functions called directly", "Allocator under heap / atom / pair caps"]
    }
    fn stub_components() -> &'static [&'static str] {
        &["cap and budget placement", "per-atom representation plan", "worker-process isolation (abort / stack overflow / hang detection)"]
    }
    fn assumptions() -> &'static [&'static str] {
        &["finite budgets (<= 3*10^7) for programs, because generated random trees may loop; operator functions are also called with budget 0 / u64::MAX", "stack limit of 20M entries and atoms >= 128 MiB are outside the explored space"]
    }
    fn reach_probes() -> &'static [&'static str] {
        &["fault.run_failed.OutOfMemory", "fault.run_failed.TooManyAtoms", "fault.run_failed.TooManyPairs", "fault.run_failed.CostExceeded", "fault.op_failed.OutOfMemory", "fault.op_failed.TooManyAtoms", "probe.run_ok"]
    }
}
