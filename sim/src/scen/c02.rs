//! C02 — the cost budget is sound, monotone and tight.
//! Fault: budget exhaustion (the VM's only deadline), enumerated over every
//! budget (small programs) or around every cost checkpoint of the reference
//! trajectory (larger ones).

use crate::core::{Ctx, Outcome, Scenario, Tier, Violation};
use crate::prog::{self, AllocCfg, F_ENABLE_GC, GenProg, ProgCfg, RunOut, fam, run_once};
use crate::rng::{Fp, Rng};
use crate::seams::EntropyPlan;
use crate::sx::Sx;
use crate::util::sx_serde;
use clvmr::verif::Probe;
use serde::{Deserialize, Serialize};
use serde_json::{Value, json};

pub struct C02;

#[derive(Clone, Serialize, Deserialize)]
pub struct Case {
    #[serde(with = "sx_serde")]
    pub prog: Sx,
    #[serde(with = "sx_serde")]
    pub env: Sx,
    pub flags: u32,
    pub entropy: EntropyPlan,
    pub extra_seed: u64,
    pub only: Option<Vec<u64>>,
}

/// `allow_random`: 1/64 of the programs are random trees. Those may loop, so callers that
/// run with an unlimited budget must pass false.
pub fn gen_case_program(rng: &mut Rng, thorough: bool, allow_new_cost: bool, allow_strict: bool, allow_random: bool) -> (GenProg, u32) {
    let mut cfg = ProgCfg::swarm(rng);
    if !thorough {
        cfg.max_depth = cfg.max_depth.min(4);
    }
    if !rng.chance(1, 4) {
        cfg.families &= !fam::BLS; // BLS-heavy programs are slow: keep them to a quarter of the runs
    }
    let flags = prog::random_flags(rng, allow_new_cost, allow_strict);
    let mut g = if allow_random && rng.chance(1, 64) { prog::gen_random_program(rng) } else { prog::gen_program(rng, &cfg) };
    if !g.guard_cost_atoms.is_empty() {
        prog::calibrate_guards(&mut g, flags);
        prog::spoil_guard_costs(rng, &mut g, cfg.wrong_cost_pct);
    }
    (g, flags)
}

fn fin(mut out: Outcome, fp: Fp) -> Outcome {
    out.fingerprint = fp.finish();
    out
}

impl Scenario for C02 {
    const ID: &'static str = "C02";
    const LEVEL: &'static str = "fault_enumeration";
    type Case = Case;

    fn generate(rng: &mut Rng, tier: Tier, _run: u64) -> Case {
        let (g, mut flags) = gen_case_program(rng, tier == Tier::Thorough, true, true, false);
        if rng.chance(1, 3) {
            flags |= F_ENABLE_GC;
        }
        Case {
            prog: g.prog.compact(),
            env: g.env,
            flags,
            entropy: if rng.bool() { EntropyPlan::Zero } else { EntropyPlan::Prng(rng.next_u64()) },
            extra_seed: rng.next_u64(),
            only: None,
        }
    }

    fn execute(case: &Case, _ctx: &Ctx) -> Outcome {
        let mut out = Outcome::default();
        let mut fp = Fp::default();
        let ac = AllocCfg::unlimited();
        let run = |m: u64, cap: usize| -> RunOut { run_once(&case.prog, &case.env, case.flags, m, &ac, &case.entropy, cap) };
        let reference = run(0, 200_000);
        out.evals += 1;
        fp.str(&reference.key());
        fp.u64(case.flags as u64);
        if reference.setup_failed {
            return fin(out, fp);
        }
        let mut checkpoints: Vec<u64> = Vec::new();
        let mut exempt = false;
        let mut steps = 0u64;
        for ev in &reference.probes.events {
            match ev {
                Probe::Step { cost, .. } => {
                    steps += 1;
                    if checkpoints.last() != Some(cost) {
                        checkpoints.push(*cost);
                    }
                }
                Probe::GuardEnter { exempt: e, .. } => {
                    out.count("probe.guards_entered", 1);
                    if *e {
                        exempt = true;
                    }
                }
                _ => {}
            }
        }
        out.count("sim.vm_steps", steps);
        // (f) a budget of 0 means unlimited
        let umax = run(u64::MAX, 0);
        out.evals += 1;
        if umax.key() != reference.key() {
            out.fail(Violation::new("zero-means-unlimited", format!("budget 0 gives {}, budget u64::MAX gives {}", reference.brief(), umax.brief())));
            return fin(out, fp);
        }
        match &reference.res {
            Err((kind, _)) => {
                out.count("probe.reference_failed", 1);
                // only clause (a) applies: whatever succeeds under M stays within M
                let mut r = Rng::new(case.extra_seed);
                let mut budgets: Vec<u64> = checkpoints.iter().rev().take(6).copied().collect();
                for _ in 0..6 {
                    budgets.push(1 + r.below(2_000_000));
                }
                if let Some(o) = &case.only {
                    budgets = o.clone();
                }
                for m in budgets {
                    if m == 0 {
                        continue;
                    }
                    let o = run(m, 0);
                    out.evals += 1;
                    if let Ok((c, _, _)) = &o.res {
                        // a program that fails without a budget cannot succeed with one
                        out.fail(
                            Violation::new("success-set-upward-closed", format!("fails with {kind} under an unlimited budget but succeeds with cost {c} under budget {m}")).with("ref", "error"),
                        );
                        return fin(out, fp);
                    }
                }
                out.nontrivial = steps >= 3;
                return fin(out, fp);
            }
            Ok((c, _, _)) => {
                let c = *c;
                out.count("sim.vm_cost", c);
                let (budgets, exhaustive): (Vec<u64>, bool) = if let Some(o) = &case.only {
                    (o.clone(), false)
                } else if c <= 4096 {
                    ((1..=c.saturating_add(1)).collect(), true)
                } else {
                    let mut v: Vec<u64> = Vec::new();
                    let mut cps = checkpoints.clone();
                    // thin to at most 100 checkpoints, always keeping the last 10
                    if cps.len() > 100 {
                        let tail: Vec<u64> = cps[cps.len() - 10..].to_vec();
                        let step = cps.len() / 90 + 1;
                        cps = cps.into_iter().step_by(step).collect();
                        cps.extend(tail);
                    }
                    for x in cps {
                        v.extend([x.saturating_sub(1), x, x.saturating_add(1)]);
                    }
                    let mut r = Rng::new(case.extra_seed);
                    for _ in 0..32 {
                        v.push(1 + r.below(c));
                    }
                    v.extend([c.saturating_sub(1), c, c.saturating_add(1), c.saturating_add(1000), u64::MAX, 1, 2]);
                    v.retain(|x| *x >= 1);
                    v.sort_unstable();
                    v.dedup();
                    (v, false)
                };
                out.count(if exhaustive { "exhaustive_sweeps" } else { "checkpoint_sweeps" }, 1);
                let mut smallest_success: Option<u64> = None;
                let mut largest_failure: Option<u64> = None;
                for m in budgets {
                    let o = run(m, 0);
                    out.evals += 1;
                    match &o.res {
                        Ok((cm, _, _)) => {
                            out.count("fault.budget_sufficient", 1);
                            if *cm > m {
                                out.fail(Violation::new("cost-within-budget", format!("succeeded under budget {m} with cost {cm}")));
                                return fin(out, fp);
                            }
                            if o.key() != reference.key() {
                                out.fail(Violation::new(
                                    "same-result-under-every-budget",
                                    format!("budget {m}: {} but unlimited: {}", o.brief(), reference.brief()),
                                ));
                                return fin(out, fp);
                            }
                            smallest_success = Some(smallest_success.map_or(m, |s| s.min(m)));
                        }
                        Err((kind, msg)) => {
                            out.count("fault.budget_exhausted", 1);
                            if kind != "CostExceeded" {
                                out.fail(
                                    Violation::new(
                                        "insufficient-budget-is-cost-exceeded",
                                        format!("budget {m} (cost without budget: {c}): failed with {kind} ({msg}) instead of cost exceeded"),
                                    )
                                    .with("got", kind),
                                );
                                return fin(out, fp);
                            }
                            if m >= c && !exempt {
                                out.fail(Violation::new("threshold-is-cost", format!("budget {m} >= cost {c} but the run failed with cost exceeded (no cost-exempt guard entered)")).with("side", "fails-at-or-above-cost"));
                                return fin(out, fp);
                            }
                            largest_failure = Some(largest_failure.map_or(m, |s| s.max(m)));
                        }
                    }
                }
                if let (Some(s), Some(f)) = (smallest_success, largest_failure)
                    && f > s
                {
                    out.fail(Violation::new("success-set-upward-closed", format!("succeeds under budget {s} but fails under the larger budget {f}")).with("ref", "ok"));
                    return fin(out, fp);
                }
                if let Some(s) = smallest_success
                    && s < c
                {
                    out.fail(Violation::new("threshold-is-cost", format!("succeeds under budget {s}, below its cost {c}")).with("side", "succeeds-below-cost"));
                    return fin(out, fp);
                }
                if exempt {
                    out.count("probe.cost_exempt_guard_cases", 1);
                }
                out.nontrivial = steps >= 3;
            }
        }
        fin(out, fp)
    }

    fn shrink(case: &Case) -> Vec<Case> {
        let mut v: Vec<Case> = Vec::new();
        for t in case.prog.shrink_candidates().into_iter().take(150) {
            v.push(Case { prog: t, ..case.clone() });
        }
        for t in case.env.shrink_candidates().into_iter().take(30) {
            v.push(Case { env: t, ..case.clone() });
        }
        if case.entropy != EntropyPlan::Zero {
            v.push(Case {
                entropy: EntropyPlan::Zero,
                ..case.clone()
            });
        }
        v
    }

    fn sample(case: &Case) -> Value {
        json!({"program": case.prog.brief(200), "env": case.env.brief(80), "flags": format!("{:#x}", case.flags), "budgets": "every M in 1..=C+1 when C<=4096, else c-1,c,c+1 for every cost checkpoint c + 32 seeded + C-1,C,C+1,u64::MAX; plus 0"})
    }
    fn rule() -> &'static str {
        "case = seeded typed program/environment over the full ChiaDialect table (swarm of operator families, calibrated softfork guards, type noise) + a flag set (incl. NEW_COST_MODEL, strict mode, ENABLE_GC). Reference run with budget 0 and the step probe gives the outcome and the ordered cost checkpoints; then the budget is enumerated: every M in 1..=C+1 when C<=4096 (exhaustive for that case), otherwise c-1,c,c+1 around (up to 100 of) the checkpoints, 32 seeded values, C-1, C, C+1, u64::MAX. Non-trivial: reference run of >=3 VM steps; distinct = fingerprints of (reference outcome, flags)."
    }
    fn default_runs(tier: Tier) -> u64 {
        match tier {
            Tier::Quick => 800_000,
            Tier::Thorough => 400_000_000,
        }
    }
    fn real_components() -> &'static [&'static str] {
        &["clvmr::run_program (run loop, guards, GC restores)", "ChiaDialect and every operator reachable from it (blst, k256/p256, sha2/sha3, num-bigint, malachite)", "clvmr::Allocator"]
    }
    fn stub_components() -> &'static [&'static str] {
        &["budget argument chosen by the simulator", "entropy source for the add/sub accumulator split (hook)", "step / guard probes (hook)"]
    }
    fn assumptions() -> &'static [&'static str] {
        &["exhaustive over budgets only per generated program with cost <= 4096; sampled at cost checkpoints otherwise", "programs with cost up to ~2*10^8"]
    }
    fn reach_probes() -> &'static [&'static str] {
        &["exhaustive_sweeps", "checkpoint_sweeps", "fault.budget_exhausted", "fault.budget_sufficient", "probe.guards_entered", "probe.cost_exempt_guard_cases"]
    }
}
