//! A synthetic property used only by `./check selftest` to prove the generic
//! machinery (worker split, crash attribution, minimiser, replay files): the
//! "system" is a list of numbers and the planted violation is "a 7 occurs
//! somewhere before a 13"; a case containing 99 aborts the process.

use crate::core::{Ctx, Outcome, Scenario, Tier, Violation};
use crate::rng::{Fp, Rng};
use serde::{Deserialize, Serialize};
use serde_json::{Value, json};

pub struct SelfTest;

#[derive(Clone, Serialize, Deserialize)]
pub struct Case {
    pub xs: Vec<u32>,
}

impl Scenario for SelfTest {
    const ID: &'static str = "SELFTEST";
    const LEVEL: &'static str = "exploration";
    type Case = Case;
    fn generate(rng: &mut Rng, _tier: Tier, run: u64) -> Case {
        let n = 3 + rng.usize(20);
        let mut xs: Vec<u32> = (0..n).map(|_| rng.below(40) as u32).collect();
        if std::env::var("CLVMSIM_SELFTEST_ABORT").is_ok() && run == 777 {
            xs.push(99);
        }
        Case { xs }
    }
    fn execute(case: &Case, _ctx: &Ctx) -> Outcome {
        let mut out = Outcome::default();
        let mut fp = Fp::default();
        for x in &case.xs {
            fp.u64(*x as u64);
        }
        if case.xs.contains(&99) {
            std::process::abort();
        }
        let p7 = case.xs.iter().position(|x| *x == 7);
        let p13 = case.xs.iter().rposition(|x| *x == 13);
        if let (Some(a), Some(b)) = (p7, p13)
            && a < b
        {
            out.fail(Violation::new("planted", format!("7 at {a} before 13 at {b}")).with("kind", "order"));
        }
        out.evals = 1;
        out.nontrivial = true;
        out.fingerprint = fp.finish();
        out
    }
    fn shrink(case: &Case) -> Vec<Case> {
        let mut v = Vec::new();
        for i in 0..case.xs.len() {
            let mut xs = case.xs.clone();
            xs.remove(i);
            v.push(Case { xs });
        }
        v
    }
    fn sample(case: &Case) -> Value {
        json!({"xs": case.xs})
    }
    fn rule() -> &'static str {
        "synthetic"
    }
    fn default_runs(_tier: Tier) -> u64 {
        2000
    }
    fn real_components() -> &'static [&'static str] {
        &[]
    }
    fn stub_components() -> &'static [&'static str] {
        &["everything"]
    }
    fn assumptions() -> &'static [&'static str] {
        &[]
    }
}
