//! Interpreter scenarios that compare two configurations of the real code
//! under simulator-owned faults:
//!   C04 ENABLE_GC is unobservable (budget / heap / atom / pair cap sweeps over GC rollbacks)
//!   C08 soft-fork safety (extension-unaware dialect)
//!   C31 softfork guards are isolated and yield nil (probes; aborted-then-reused allocator)

use crate::core::{Ctx, Outcome, Scenario, Tier, Violation};
use crate::prog::{self, AllocCfg, F_ENABLE_GC, F_LIMIT_SOFTFORK, F_NEW_COST_MODEL, F_NO_UNKNOWN_OPS, GenProg, ProgCfg, RunOut, fam, int_bytes, run_dialect, run_once};
use crate::rng::{Fp, Rng};
use crate::scen::alloc::{MAX_ATOMS, MAX_PAIRS};
use crate::seams::EntropyPlan;
use crate::sx::{Sx, SxNode};
use crate::util::sx_serde;
use clvmr::allocator::{Allocator, NodePtr};
use clvmr::chia_dialect::{ChiaDialect, ClvmFlags};
use clvmr::cost::Cost;
use clvmr::dialect::{Dialect, OperatorSet};
use clvmr::more_ops::op_unknown;
use clvmr::reduction::Response;
use clvmr::verif::{GcOutcome, Probe};
use serde::{Deserialize, Serialize};
use serde_json::{Value, json};

fn fin(mut out: Outcome, fp: Fp) -> Outcome {
    out.fingerprint = fp.finish();
    out
}

#[derive(Clone, Copy, Debug)]
pub struct StepPoint {
    pub cost: u64,
    pub atoms: u64,
    pub pairs: u64,
    pub heap: u64,
}

pub fn trajectory(o: &RunOut) -> Vec<StepPoint> {
    o.probes
        .events
        .iter()
        .filter_map(|e| match e {
            Probe::Step { cost, atoms, pairs, heap, .. } => Some(StepPoint {
                cost: *cost,
                atoms: *atoms as u64,
                pairs: *pairs as u64,
                heap: *heap as u64,
            }),
            _ => None,
        })
        .collect()
}

#[derive(Clone, Debug, Serialize, Deserialize, PartialEq, Eq)]
pub enum FaultKind {
    None,
    Budget,
    Heap,
    Atoms,
    Pairs,
}

/// choose a fault (budget or allocator cap) that strikes inside a chosen step of the reference trajectory
pub fn place_fault(rng: &mut Rng, traj: &[StepPoint]) -> (FaultKind, u64, AllocCfg) {
    let mut ac = AllocCfg::unlimited();
    if traj.is_empty() {
        return (FaultKind::None, 0, ac);
    }
    let i = rng.usize(traj.len());
    let s = traj[i];
    let d = rng.below(3); // 0,1,2 -> -1,0,+1
    // half of the faults strike at a step boundary (+-1), the other half somewhere INSIDE the
    // operator that runs at that step: between this step's counters and the next step's
    let next = traj.get(i + 1).copied();
    let inside = rng.bool();
    let within = |rng: &mut Rng, lo: u64, hi: Option<u64>| -> u64 {
        match hi {
            Some(h) if inside && h > lo + 1 => lo + 1 + rng.below(h - lo - 1),
            // the last step of the trajectory (the run ended or failed inside it): some way in
            None if inside => lo + 1 + rng.below(1200),
            _ => (lo + d).saturating_sub(1),
        }
    };
    match rng.below(10) {
        0..=2 => (FaultKind::None, 0, ac),
        3..=4 => (FaultKind::Budget, within(rng, s.cost, next.map(|n| n.cost)).max(1), ac),
        5..=7 => {
            let peak = traj.iter().map(|p| p.heap).max().unwrap_or(1);
            let l = if rng.chance(1, 4) { peak.saturating_sub(1) } else { within(rng, s.heap, next.map(|n| n.heap)) };
            ac.heap_limit = Some(l.max(1));
            (FaultKind::Heap, 0, ac)
        }
        8 => {
            // the cap is hit when the unlimited run would reach s.atoms (+-1, or inside the step)
            let at = within(rng, s.atoms, next.map(|n| n.atoms));
            ac.ghost_atoms = MAX_ATOMS.saturating_sub(at);
            (FaultKind::Atoms, 0, ac)
        }
        _ => {
            let at = within(rng, s.pairs, next.map(|n| n.pairs));
            ac.ghost_pairs = MAX_PAIRS.saturating_sub(at);
            (FaultKind::Pairs, 0, ac)
        }
    }
}

// ---------------------------------------------------------------------------
// C04

pub struct C04;

#[derive(Clone, Serialize, Deserialize)]
pub struct Case04 {
    #[serde(with = "sx_serde")]
    pub prog: Sx,
    #[serde(with = "sx_serde")]
    pub env: Sx,
    pub flags: u32,
    pub max_cost: u64,
    pub alloc: AllocCfg,
    pub fault: FaultKind,
    pub entropy: EntropyPlan,
}

impl Scenario for C04 {
    const ID: &'static str = "C04";
    const LEVEL: &'static str = "exploration";
    type Case = Case04;

    fn generate(rng: &mut Rng, tier: Tier, _run: u64) -> Case04 {
        let mut cfg = ProgCfg::swarm(rng);
        cfg.families |= fam::GCSHAPES | fam::BIG | fam::APPLY;
        if tier == Tier::Quick {
            cfg.max_depth = cfg.max_depth.min(4);
        }
        if !rng.chance(1, 5) {
            cfg.families &= !fam::BLS;
        }
        let flags = prog::random_flags(rng, true, true) & !F_ENABLE_GC;
        let mut g = prog::gen_program(rng, &cfg);
        if !g.guard_cost_atoms.is_empty() {
            prog::calibrate_guards(&mut g, flags);
            prog::spoil_guard_costs(rng, &mut g, 3);
        }
        let entropy = if rng.bool() { EntropyPlan::Zero } else { EntropyPlan::Prng(rng.next_u64()) };
        // 1/4 of the cases: an atom-heavy host allocator (unrelated heap atoms allocated first)
        let junk = if rng.chance(1, 4) { 20 + rng.below(400) as u32 } else { 0 };
        let base = AllocCfg {
            junk_atoms: junk,
            ..AllocCfg::unlimited()
        };
        let reference = run_once(&g.prog, &g.env, flags, 0, &base, &entropy, 100_000);
        let traj = trajectory(&reference);
        let (fault, budget, mut alloc) = place_fault(rng, &traj);
        alloc.junk_atoms = junk;
        Case04 {
            prog: g.prog.compact(),
            env: g.env,
            flags,
            max_cost: budget,
            alloc,
            fault,
            entropy,
        }
    }

    fn execute(case: &Case04, _ctx: &Ctx) -> Outcome {
        let mut out = Outcome::default();
        let mut fp = Fp::default();
        let off = run_once(&case.prog, &case.env, case.flags & !F_ENABLE_GC, case.max_cost, &case.alloc, &case.entropy, 0);
        let on = run_once(&case.prog, &case.env, case.flags | F_ENABLE_GC, case.max_cost, &case.alloc, &case.entropy, 50_000);
        out.evals += 2;
        if off.setup_failed || on.setup_failed {
            // building the program itself hit the cap: both modes must agree on that too
            if off.setup_failed != on.setup_failed {
                out.fail(Violation::new("same-setup", "program construction failed in one mode only".to_string()));
            }
            return fin(out, fp);
        }
        fp.str(&off.key());
        fp.u64(case.flags as u64);
        fp.str(&format!("{:?}", case.fault));
        let mut gc_events = 0u64;
        let mut steps = 0u64;
        for ev in &on.probes.events {
            match ev {
                Probe::Gc { outcome, .. } => {
                    gc_events += 1;
                    let k = match outcome {
                        GcOutcome::AbortedSmallSavings => "gc.aborted_small_savings",
                        GcOutcome::NoReplace => "gc.restored_noreplace",
                        GcOutcome::ReplaceOldBytes => "gc.restored_replace_old_bytes",
                        GcOutcome::AbortedPair => "gc.aborted_pair",
                        GcOutcome::AbortedLargeAtom => "gc.aborted_large_atom",
                        GcOutcome::ReplaceClone => "gc.restored_replace_clone",
                    };
                    out.count(k, 1);
                    fp.str(k);
                }
                Probe::Step { .. } => steps += 1,
                _ => {}
            }
        }
        out.count("sim.vm_steps", steps);
        match &case.fault {
            FaultKind::None => out.count("fault.none", 1),
            FaultKind::Budget => out.count("fault.budget_at_step", 1),
            FaultKind::Heap => out.count("fault.heap_limit_from_trajectory", 1),
            FaultKind::Atoms => out.count("fault.atom_cap_distance", 1),
            FaultKind::Pairs => out.count("fault.pair_cap_distance", 1),
        }
        if let Err((k, _)) = &off.res {
            out.count(&format!("fault.run_failed.{k}"), 1);
        }
        let fclass = format!("{:?}", case.fault);
        match (&off.res, &on.res) {
            (Ok((c0, h0, _)), Ok((c1, h1, _))) => {
                if c0 != c1 || h0 != h1 {
                    out.fail(
                        Violation::new("gc-same-result", format!("without GC: {}; with ENABLE_GC: {}", off.brief(), on.brief()))
                            .with("fault", &fclass)
                            .with("diff", if c0 != c1 { "cost" } else { "tree" }),
                    );
                    return fin(out, fp);
                }
                if let Ok((c, _, _)) = &off.res {
                    out.count("sim.vm_cost", (*c).min(1 << 40));
                }
            }
            (Err((_, m0)), Err((_, m1))) => {
                if m0 != m1 {
                    out.fail(Violation::new("gc-same-error", format!("without GC: {}; with ENABLE_GC: {}", off.brief(), on.brief())).with("fault", &fclass));
                    return fin(out, fp);
                }
            }
            _ => {
                out.fail(Violation::new("gc-same-outcome", format!("without GC: {}; with ENABLE_GC: {}", off.brief(), on.brief())).with("fault", &fclass));
                return fin(out, fp);
            }
        }
        if off.counts != on.counts {
            out.fail(
                Violation::new(
                    "gc-same-counts",
                    format!("allocator (atoms,pairs,heap) afterwards: without GC {:?}, with ENABLE_GC {:?} (outcome {})", off.counts, on.counts, off.brief()),
                )
                .with("fault", &fclass),
            );
            return fin(out, fp);
        }
        out.nontrivial = gc_events > 0;
        fin(out, fp)
    }

    fn shrink(case: &Case04) -> Vec<Case04> {
        let mut v = Vec::new();
        for t in case.prog.shrink_candidates().into_iter().take(200) {
            v.push(Case04 { prog: t, ..case.clone() });
        }
        for t in case.env.shrink_candidates().into_iter().take(30) {
            v.push(Case04 { env: t, ..case.clone() });
        }
        if case.fault != FaultKind::None {
            v.push(Case04 {
                fault: FaultKind::None,
                max_cost: 0,
                alloc: AllocCfg::unlimited(),
                ..case.clone()
            });
        }
        if case.entropy != EntropyPlan::Zero {
            v.push(Case04 {
                entropy: EntropyPlan::Zero,
                ..case.clone()
            });
        }
        v
    }

    fn sample(case: &Case04) -> Value {
        json!({"program": case.prog.brief(220), "env": case.env.brief(60), "flags": format!("{:#x}", case.flags), "budget": case.max_cost, "alloc": format!("{:?}", case.alloc), "fault": format!("{:?}", case.fault)})
    }
    fn rule() -> &'static str {
        "case = seeded program with GC-candidate shapes (operands >= 1 KiB so that the 1024-byte savings threshold is crossed; results that are pre-existing, small new atoms, large new atoms, substrings of pre-existing data, pairs) + flags without ENABLE_GC + one fault placed from the reference trajectory of the same program: budget at a step boundary +-1, heap limit equal to the heap size at a step +-1 (or peak-1), atom / pair cap reached at a step +-1, or none. Two real runs on identically built allocators, without and with ENABLE_GC, same entropy. Oracle: same cost and tree, or same error message; same atom/pair/heap counts afterwards (caps compare the whole counter trajectory). Non-trivial: at least one GC attempt observed by the probe."
    }
    fn default_runs(tier: Tier) -> u64 {
        match tier {
            Tier::Quick => 8_000_000,
            Tier::Thorough => 4_000_000_000,
        }
    }
    fn real_components() -> &'static [&'static str] {
        &["run_program with ChiaDialect with and without ENABLE_GC", "Allocator::maybe_restore_with_node / transparent checkpoints / ghost counters", "all operators reachable"]
    }
    fn stub_components() -> &'static [&'static str] {
        &["budget, heap limit and ghost pre-load chosen by the simulator from the reference trajectory", "entropy for the add/sub split", "GC-outcome and step probes"]
    }
    fn assumptions() -> &'static [&'static str] {
        &["GC decisions are never forced: reach of each restore outcome comes from the workload and is measured by the probe", "a bug common to both modes is invisible (the reference is the real code without GC)"]
    }
    fn reach_probes() -> &'static [&'static str] {
        &[
            "gc.aborted_small_savings",
            "gc.restored_noreplace",
            "gc.restored_replace_old_bytes",
            "gc.aborted_pair",
            "gc.aborted_large_atom",
            "gc.restored_replace_clone",
            "fault.budget_at_step",
            "fault.heap_limit_from_trajectory",
            "fault.atom_cap_distance",
            "fault.pair_cap_distance",
        ]
    }
}

// ---------------------------------------------------------------------------
// C08

/// A dialect that is identical to ChiaDialect except that it knows no softfork
/// extension and treats the 4-byte secp opcodes as unknown operators.
pub struct UnawareDialect {
    inner: ChiaDialect,
}

impl UnawareDialect {
    pub fn new(flags: ClvmFlags) -> Self {
        UnawareDialect { inner: ChiaDialect::new(flags) }
    }
}

impl Dialect for UnawareDialect {
    fn quote_kw(&self) -> u32 {
        self.inner.quote_kw()
    }
    fn apply_kw(&self) -> u32 {
        self.inner.apply_kw()
    }
    fn softfork_kw(&self) -> u32 {
        self.inner.softfork_kw()
    }
    fn softfork_extension(&self, _ext: u32) -> OperatorSet {
        OperatorSet::Default
    }
    fn flags(&self) -> ClvmFlags {
        self.inner.flags()
    }
    fn gc_candidate(&self, allocator: &Allocator, op: NodePtr) -> bool {
        self.inner.gc_candidate(allocator, op)
    }
    fn op(&self, allocator: &mut Allocator, op: NodePtr, args: NodePtr, max_cost: Cost, extensions: OperatorSet) -> Response {
        // The only 4-byte opcodes with a meaning are the two secp operators; a node that does not
        // know them prices *every* 4-byte opcode with the unknown-operator rule (in consensus mode).
        if allocator.atom_len(op) == 4 && self.inner.allow_unknown_ops() {
            return op_unknown(allocator, op, args, max_cost, self.inner.flags());
        }
        self.inner.op(allocator, op, args, max_cost, extensions)
    }
    fn allow_unknown_ops(&self) -> bool {
        self.inner.allow_unknown_ops()
    }
}

pub struct C08;

#[derive(Clone, Serialize, Deserialize)]
pub struct Case08 {
    #[serde(with = "sx_serde")]
    pub prog: Sx,
    #[serde(with = "sx_serde")]
    pub env: Sx,
    pub flags: u32,
    pub max_cost: u64,
    pub alloc: AllocCfg,
    pub fault: FaultKind,
    pub entropy: EntropyPlan,
}

impl Scenario for C08 {
    const ID: &'static str = "C08";
    const LEVEL: &'static str = "exploration";
    type Case = Case08;

    fn generate(rng: &mut Rng, tier: Tier, _run: u64) -> Case08 {
        let mut cfg = ProgCfg::swarm(rng);
        cfg.families |= fam::GUARD;
        cfg.guard_nesting = *rng.pick(&[1u32, 1, 2, 3]);
        cfg.extensions = vec![0, 1, 1];
        if rng.chance(1, 2) {
            cfg.families |= fam::KECCAK;
        }
        if rng.chance(1, 3) {
            cfg.families |= fam::SECP | fam::LOGIC;
        }
        if rng.chance(1, 3) {
            cfg.families |= fam::BLS;
        } else {
            cfg.families &= !fam::BLS;
        }
        cfg.malformed_guard_pct = 10;
        if tier == Tier::Quick {
            cfg.max_depth = cfg.max_depth.min(4);
        }
        // consensus mode, pre-hard-fork cost model
        let flags = (prog::random_flags(rng, false, false) & !(F_NO_UNKNOWN_OPS | F_NEW_COST_MODEL)) | if rng.bool() { F_ENABLE_GC } else { 0 };
        if rng.chance(1, 2) {
            cfg.families |= fam::GCSHAPES;
        }
        let mut g = prog::gen_program(rng, &cfg);
        if !g.guard_cost_atoms.is_empty() {
            prog::calibrate_guards(&mut g, flags);
            prog::spoil_guard_costs(rng, &mut g, 4);
        }
        let entropy = if rng.bool() { EntropyPlan::Zero } else { EntropyPlan::Prng(rng.next_u64()) };
        let junk = if rng.chance(1, 4) { 10 + rng.below(300) as u32 } else { 0 };
        let base = AllocCfg {
            junk_atoms: junk,
            ..AllocCfg::unlimited()
        };
        let reference = run_once(&g.prog, &g.env, flags, 0, &base, &entropy, 100_000);
        let traj = trajectory(&reference);
        let (mut fault, budget, mut alloc) = place_fault(rng, &traj);
        // atom / pair caps are not part of this property's comparison space
        if matches!(fault, FaultKind::Atoms | FaultKind::Pairs) {
            fault = FaultKind::None;
            alloc = AllocCfg::unlimited();
        }
        alloc.junk_atoms = junk;
        Case08 {
            prog: g.prog.compact(),
            env: g.env,
            flags,
            max_cost: if fault == FaultKind::Budget { budget } else { 0 },
            alloc,
            fault,
            entropy,
        }
    }

    fn execute(case: &Case08, _ctx: &Ctx) -> Outcome {
        let mut out = Outcome::default();
        let mut fp = Fp::default();
        let flags = ClvmFlags::from_bits_truncate(case.flags & !(F_NO_UNKNOWN_OPS | F_NEW_COST_MODEL));
        let Some(mut a1) = case.alloc.build() else { return out };
        let Some(mut a2) = case.alloc.build() else { return out };
        let aware = run_dialect(&mut a1, &ChiaDialect::new(flags), &case.prog, &case.env, case.max_cost, &case.entropy, 50_000);
        let unaware = run_dialect(&mut a2, &UnawareDialect::new(flags), &case.prog, &case.env, case.max_cost, &case.entropy, 0);
        out.evals += 2;
        if aware.setup_failed || unaware.setup_failed {
            return fin(out, fp);
        }
        fp.str(&aware.key());
        fp.u64(case.flags as u64);
        let mut guards = 0u64;
        let mut completed = 0u64;
        let mut max_depth = 0usize;
        for ev in &aware.probes.events {
            match ev {
                Probe::GuardEnter { depth, .. } => {
                    guards += 1;
                    max_depth = max_depth.max(*depth);
                }
                Probe::GuardExit { .. } => completed += 1,
                _ => {}
            }
        }
        out.count("probe.guards_entered", guards);
        out.count("probe.guards_completed", completed);
        if max_depth >= 2 {
            out.count("probe.nested_guards", 1);
        }
        match &case.fault {
            FaultKind::Budget => out.count("fault.budget_at_step", 1),
            FaultKind::Heap => out.count("fault.heap_limit_from_trajectory", 1),
            _ => out.count("fault.none", 1),
        }
        if let Ok((c, h, _)) = &aware.res {
            out.count("probe.aware_succeeded", 1);
            match &unaware.res {
                Ok((c2, h2, _)) => {
                    if c != c2 || h != h2 {
                        out.fail(
                            Violation::new("unaware-same-result", format!("aware dialect: {}; extension-unaware dialect: {}", aware.brief(), unaware.brief()))
                                .with("diff", if c != c2 { "cost" } else { "tree" }),
                        );
                        return fin(out, fp);
                    }
                    if aware.counts != unaware.counts {
                        out.fail(Violation::new(
                            "unaware-same-counts",
                            format!("allocator (atoms,pairs,heap) afterwards: aware {:?}, unaware {:?}", aware.counts, unaware.counts),
                        ));
                        return fin(out, fp);
                    }
                }
                Err(_) => {
                    out.fail(Violation::new("unaware-accepts", format!("aware dialect: {}; extension-unaware dialect: {}", aware.brief(), unaware.brief())));
                    return fin(out, fp);
                }
            }
            out.nontrivial = completed > 0;
        } else {
            out.count("probe.aware_failed", 1);
        }
        fin(out, fp)
    }

    fn shrink(case: &Case08) -> Vec<Case08> {
        let mut v = Vec::new();
        for t in case.prog.shrink_candidates().into_iter().take(200) {
            v.push(Case08 { prog: t, ..case.clone() });
        }
        for t in case.env.shrink_candidates().into_iter().take(30) {
            v.push(Case08 { env: t, ..case.clone() });
        }
        if case.fault != FaultKind::None {
            v.push(Case08 {
                fault: FaultKind::None,
                max_cost: 0,
                alloc: AllocCfg::unlimited(),
                ..case.clone()
            });
        }
        v
    }

    fn sample(case: &Case08) -> Value {
        json!({"program": case.prog.brief(240), "env": case.env.brief(60), "flags": format!("{:#x}", case.flags), "budget": case.max_cost, "alloc": format!("{:?}", case.alloc)})
    }
    fn rule() -> &'static str {
        "case = seeded program with softfork guards (measured declared cost over BLS / keccak / ordinary bodies, nesting up to 3, extensions 0, 1 and unknown ones, malformed guards, wrong costs) and 4-byte secp opcodes, consensus-mode flags without NEW_COST_MODEL, plus a budget at a cost checkpoint or a heap limit from the aware run's trajectory. Two real runs: ChiaDialect, and a harness Dialect that delegates to ChiaDialect but maps every softfork extension to Default and sends the two secp opcodes to op_unknown. Oracle (one-directional): aware success => unaware success with equal cost, tree and atom/pair/heap counts. Non-trivial: aware run succeeded and completed at least one guard."
    }
    fn default_runs(tier: Tier) -> u64 {
        match tier {
            Tier::Quick => 6_000_000,
            Tier::Thorough => 3_000_000_000,
        }
    }
    fn real_components() -> &'static [&'static str] {
        &["run_program (guard entry/exit, cost check, allocator restore)", "ChiaDialect, op_unknown, secp / keccak / BLS operators", "Allocator checkpoints"]
    }
    fn stub_components() -> &'static [&'static str] {
        &["extension-unaware Dialect (public trait, harness side)", "guard cost calibration from probes", "budget / heap limit placement"]
    }
    fn assumptions() -> &'static [&'static str] {
        &["both dialects get the same flags (without NO_UNKNOWN_OPS and NEW_COST_MODEL)", "secp opcodes use mostly invalid signatures (a valid one needs a signing key: only rejection paths and argument errors are reached)"]
    }
    fn reach_probes() -> &'static [&'static str] {
        &["probe.guards_completed", "probe.nested_guards", "probe.aware_succeeded", "fault.budget_at_step", "fault.heap_limit_from_trajectory"]
    }
}

// ---------------------------------------------------------------------------
// C31

pub struct C31;

#[derive(Clone, Serialize, Deserialize)]
pub struct Prog31 {
    #[serde(with = "sx_serde")]
    pub prog: Sx,
    #[serde(with = "sx_serde")]
    pub env: Sx,
}

#[derive(Clone, Serialize, Deserialize)]
pub struct Case31 {
    /// optional first run on the same allocator, aborted inside a guard by this budget / heap limit
    pub first: Option<(Prog31, u64)>,
    pub target: Prog31,
    pub flags: u32,
    pub heap_limit: Option<u64>,
    /// number of leading list elements of the result that are guard results (must be nil)
    pub guard_slots: u32,
    /// Some(d): the target is a chain of d nested guards (LIMIT_SOFTFORK clause)
    pub nest_depth: Option<u32>,
    pub entropy: EntropyPlan,
    /// the costs declared by the softfork guards of the target, read from the program text
    #[serde(default)]
    pub declared: Vec<u64>,
    /// chain cases: one guard's declared cost was changed on purpose after calibration
    #[serde(default)]
    pub spoiled: bool,
}

/// the declared costs (first softfork argument) of the generated guards of a program
fn declared_costs(g: &GenProg) -> Vec<u64> {
    g.guard_cost_atoms
        .iter()
        .filter_map(|i| match &g.prog.nodes[*i as usize] {
            SxNode::A(b) if b.len() <= 9 => {
                let mut v: u64 = 0;
                for x in b {
                    v = (v << 8) | *x as u64;
                }
                Some(v)
            }
            _ => None,
        })
        .collect()
}

/// (softfork COST EXT (q . INNER) ENV)
fn mk_guard(t: &mut Sx, cost: u64, ext: u32, inner: u32) -> (u32, u32) {
    let q = |t: &mut Sx, v: u32| {
        let one = t.push_atom(&[1]);
        t.push_pair(one, v)
    };
    let c = t.push_atom(&int_bytes(cost as i128));
    let qc = q(t, c);
    let e = t.push_atom(&int_bytes(ext as i128));
    let qe = q(t, e);
    let qi = q(t, inner);
    let one = t.push_atom(&[1]);
    let op = t.push_atom(&[36]);
    let l = t.push_list(&[qc, qe, qi, one]);
    (t.push_pair(op, l), c)
}

fn nested_chain(depth: u32, ext: u32) -> GenProg {
    let mut t = Sx {
        nodes: vec![],
        root: 0,
    };
    // innermost body: (q . ())
    let nil = t.push_atom(&[]);
    let one = t.push_atom(&[1]);
    let mut body = t.push_pair(one, nil);
    let mut atoms = Vec::new();
    for d in 0..depth {
        // outermost guard gets the largest placeholder
        let level = depth - d; // innermost first
        let (g, c) = mk_guard(&mut t, ((1u64 << 60) >> level.min(30)) + d as u64, ext, body);
        atoms.push(c);
        body = g;
    }
    t.root = body;
    GenProg {
        prog: t,
        env: Sx::nil(),
        guard_cost_atoms: atoms,
    }
}

impl Scenario for C31 {
    const ID: &'static str = "C31";
    const LEVEL: &'static str = "exploration";
    type Case = Case31;

    fn generate(rng: &mut Rng, tier: Tier, _run: u64) -> Case31 {
        let entropy = if rng.bool() { EntropyPlan::Zero } else { EntropyPlan::Prng(rng.next_u64()) };
        // 1/8 of the cases: the nesting-limit clause
        if rng.chance(1, 8) {
            let depth = *rng.pick(&[1u32, 5, 19, 20, 20, 21, 21, 22, 25]);
            let base = prog::random_flags(rng, true, false) & !(F_NO_UNKNOWN_OPS | F_LIMIT_SOFTFORK);
            let mut g = nested_chain(depth, rng.below(2) as u32);
            prog::calibrate_guards(&mut g, base);
            // a third of the chains: one guard declares a different cost than it consumes
            let mut spoiled = false;
            if rng.chance(1, 3) && !g.guard_cost_atoms.is_empty() {
                let idx = g.guard_cost_atoms[rng.usize(g.guard_cost_atoms.len())];
                if let SxNode::A(b) = &g.prog.nodes[idx as usize] {
                    let mut v: i128 = 0;
                    for x in b {
                        v = (v << 8) | *x as i128;
                    }
                    let nv = v + *rng.pick(&[1i128, 1, 2, 40, 1000, -1]);
                    if nv > 0 && nv != v {
                        g.prog.nodes[idx as usize] = SxNode::A(int_bytes(nv));
                        spoiled = true;
                    }
                }
            }
            let declared = declared_costs(&g);
            let flags = if rng.chance(3, 4) { base | F_LIMIT_SOFTFORK } else { base };
            return Case31 {
                first: None,
                target: Prog31 {
                    prog: g.prog.compact(),
                    env: g.env,
                },
                flags,
                heap_limit: None,
                guard_slots: 0,
                nest_depth: Some(depth),
                entropy,
                declared,
                spoiled,
            };
        }
        let mut cfg = ProgCfg::swarm(rng);
        cfg.families |= fam::GUARD;
        cfg.guard_nesting = *rng.pick(&[1u32, 2, 3, 4]);
        cfg.extensions = vec![0, 1];
        cfg.malformed_guard_pct = 0;
        if tier == Tier::Quick {
            cfg.max_depth = cfg.max_depth.min(4);
        }
        if rng.chance(1, 4) {
            cfg.families |= fam::BLS;
        } else {
            cfg.families &= !fam::BLS;
        }
        let strict = rng.chance(1, 4);
        let flags = prog::random_flags(rng, true, strict) | if rng.chance(1, 3) { F_ENABLE_GC } else { 0 };
        if rng.chance(1, 3) {
            cfg.families |= fam::GCSHAPES;
        }
        // target: (c G1 (c G2 ... (q . X)))  -- every guard result is visible in the value
        let build = |rng: &mut Rng| -> (GenProg, u32) {
            let mut g;
            let mut slots;
            loop {
                g = prog::gen_program(rng, &cfg);
                slots = 0;
                // wrap: prepend 1..3 guards taken from fresh programs' guard generator by nesting the program itself
                let n = 1 + rng.usize(3);
                let mut t = g.prog.clone();
                let mut tail = t.root;
                let mut atoms = g.guard_cost_atoms.clone();
                for k in 0..n {
                    // outer wrappers get larger placeholders than everything they enclose
                    let (gd, c) = mk_guard(&mut t, (1u64 << 58) + ((k as u64 + 1) << 50), *rng.pick(&[0u32, 1]), tail);
                    atoms.push(c);
                    // (c GUARD (q . ()))-style list: (c gd tailvalue)
                    let nil = t.push_atom(&[]);
                    let one = t.push_atom(&[1]);
                    let qnil = t.push_pair(one, nil);
                    let four = t.push_atom(&[4]);
                    let args = t.push_list(&[gd, qnil]);
                    tail = t.push_pair(four, args);
                    slots = 1;
                }
                t.root = tail;
                g.prog = t;
                g.guard_cost_atoms = atoms;
                break;
            }
            (g, slots)
        };
        let (mut g, slots) = build(rng);
        prog::calibrate_guards(&mut g, flags);
        prog::spoil_guard_costs(rng, &mut g, 5);
        let declared = declared_costs(&g);
        // optional first run aborted inside a guard
        let mut first = None;
        let mut heap_limit = None;
        if rng.chance(1, 3) {
            // a guard whose body allocates and then raises: the run dies between the guard's
            // enter and exit (a budget cannot do that to a non-exempt guard, whose whole
            // declared cost is checked against the budget at entry)
            let mut t = Sx { nodes: vec![], root: 0 };
            let one = t.push_atom(&[1]);
            let big = t.push_atom(&rng.bytes(700));
            let qbig = t.push_pair(one, big);
            let cat_op = t.push_atom(&[14]);
            let cat_args = t.push_list(&[qbig, qbig]);
            let cat = t.push_pair(cat_op, cat_args);
            let x_op = t.push_atom(&[8]);
            let x_args = t.push_list(&[cat]);
            let raise = t.push_pair(x_op, x_args);
            let depth = 1 + rng.usize(3);
            let mut body = raise;
            for k in 0..depth {
                let (gd, _) = mk_guard(&mut t, (1u64 << 50) << k, rng.below(2) as u32, body);
                body = gd;
            }
            t.root = body;
            first = Some((
                Prog31 {
                    prog: t.compact(),
                    env: Sx::nil(),
                },
                0,
            ));
        } else if rng.chance(1, 2) {
            let (mut g1, _) = build(rng);
            prog::calibrate_guards(&mut g1, flags);
            let r = run_once(&g1.prog, &g1.env, flags, 0, &AllocCfg::unlimited(), &entropy, 100_000);
            // a budget that strikes between a guard's enter and exit probe
            let mut inside: Vec<u64> = Vec::new();
            let mut open = 0;
            for ev in &r.probes.events {
                match ev {
                    Probe::GuardEnter { .. } => open += 1,
                    Probe::GuardExit { .. } => open -= 1,
                    Probe::Step { cost, .. } if open > 0 => inside.push(*cost),
                    _ => {}
                }
            }
            if !inside.is_empty() {
                let m = inside[rng.usize(inside.len())].saturating_sub(rng.below(2)).max(1);
                first = Some((
                    Prog31 {
                        prog: g1.prog.compact(),
                        env: g1.env,
                    },
                    m,
                ));
            }
        }
        if rng.chance(1, 6) {
            let r = run_once(&g.prog, &g.env, flags, 0, &AllocCfg::unlimited(), &entropy, 100_000);
            let traj = trajectory(&r);
            if !traj.is_empty() {
                heap_limit = Some(traj[rng.usize(traj.len())].heap + rng.below(3));
            }
        }
        Case31 {
            first,
            target: Prog31 {
                prog: g.prog.compact(),
                env: g.env,
            },
            flags,
            heap_limit,
            guard_slots: slots,
            nest_depth: None,
            entropy,
            declared,
            spoiled: false,
        }
    }

    fn execute(case: &Case31, _ctx: &Ctx) -> Outcome {
        let mut out = Outcome::default();
        let mut fp = Fp::default();
        let flags = ClvmFlags::from_bits_truncate(case.flags);
        let d = ChiaDialect::new(flags);
        let mut a = match case.heap_limit {
            Some(l) => Allocator::new_limited(l.min(u32::MAX as u64) as usize),
            None => Allocator::new(),
        };
        if let Some((p1, budget)) = &case.first {
            let r1 = run_dialect(&mut a, &d, &p1.prog, &p1.env, *budget, &case.entropy, 20_000);
            out.evals += 1;
            let mut open = 0i64;
            for ev in &r1.probes.events {
                match ev {
                    Probe::GuardEnter { .. } => open += 1,
                    Probe::GuardExit { .. } => open -= 1,
                    _ => {}
                }
            }
            if r1.res.is_err() && open > 0 {
                out.count("fault.first_run_aborted_inside_guard", 1);
            }
            fp.str(&r1.key());
        }
        let r = run_dialect(&mut a, &d, &case.target.prog, &case.target.env, 0, &case.entropy, 200_000);
        out.evals += 1;
        if r.setup_failed {
            return fin(out, fp);
        }
        fp.str(&r.key());
        fp.u64(case.flags as u64);
        // --- per guard, from the probes
        struct Open {
            atoms: usize,
            pairs: usize,
            heap: usize,
            cost: u64,
            declared: u64,
            exempt: bool,
            depth: usize,
        }
        let mut stack: Vec<Open> = Vec::new();
        let mut completed = 0u64;
        let mut maxdepth = 0usize;
        for ev in &r.probes.events {
            match ev {
                Probe::GuardEnter {
                    depth,
                    atoms,
                    pairs,
                    heap,
                    cost,
                    expected_cost,
                    exempt,
                } => {
                    maxdepth = maxdepth.max(*depth);
                    // a guard is held to the cost the program declares for it, not to anything else
                    let held = expected_cost.wrapping_sub(*cost);
                    if !*exempt && !case.declared.is_empty() && !case.declared.contains(&held) {
                        out.fail(Violation::new(
                            "guard-held-to-declared-cost",
                            format!("a guard entered at cost {cost} is held to {held}, which no softfork call of the program declares (declared: {:?})", &case.declared[..case.declared.len().min(8)]),
                        ));
                        return fin(out, fp);
                    }
                    stack.push(Open {
                        atoms: *atoms,
                        pairs: *pairs,
                        heap: *heap,
                        cost: *cost,
                        declared: expected_cost.wrapping_sub(*cost),
                        exempt: *exempt,
                        depth: *depth,
                    });
                }
                Probe::GuardExit { depth, atoms, pairs, heap, cost } => {
                    let Some(o) = stack.pop() else {
                        out.fail(Violation::new("guard-probe-balance", "guard exit without a matching enter".to_string()));
                        return fin(out, fp);
                    };
                    completed += 1;
                    if o.depth != *depth {
                        out.fail(Violation::new("guard-probe-balance", format!("guard exit at depth {depth} closes a guard entered at depth {}", o.depth)));
                        return fin(out, fp);
                    }
                    if (o.atoms, o.pairs, o.heap) != (*atoms, *pairs, *heap) {
                        out.fail(
                            Violation::new(
                                "guard-restores-counts",
                                format!("guard at depth {depth}: (atoms,pairs,heap) at entry {:?}, after completion {:?}", (o.atoms, o.pairs, o.heap), (*atoms, *pairs, *heap)),
                            )
                            .with("after_aborted_run", if case.first.is_some() { "yes" } else { "no" }),
                        );
                        return fin(out, fp);
                    }
                    if o.exempt {
                        out.count("probe.exempt_guards_completed", 1);
                        if !flags.contains(ClvmFlags::NEW_COST_MODEL) {
                            out.fail(Violation::new("exempt-only-under-new-cost-model", "a guard was cost-exempt without NEW_COST_MODEL".to_string()));
                            return fin(out, fp);
                        }
                    } else if cost.wrapping_sub(o.cost) != o.declared {
                        out.fail(Violation::new(
                            "guard-consumes-declared-cost",
                            format!("guard at depth {depth} declared {} but consumed {}", o.declared, cost.wrapping_sub(o.cost)),
                        ));
                        return fin(out, fp);
                    }
                }
                _ => {}
            }
        }
        out.count("probe.guards_completed", completed);
        if maxdepth >= 2 {
            out.count("probe.nested_guards", 1);
        }
        // --- from the result: guard positions hold nil
        if let Ok((_, _, Some(t))) = &r.res
            && case.guard_slots > 0
        {
            let mut cur = t.root;
            for i in 0..case.guard_slots {
                match &t.nodes[cur as usize] {
                    SxNode::P(l, rr) => {
                        if !matches!(&t.nodes[*l as usize], SxNode::A(b) if b.is_empty()) {
                            out.fail(Violation::new("guard-yields-nil", format!("result list element {i} is a completed guard's value but is not nil: {}", t.brief(120))));
                            return fin(out, fp);
                        }
                        cur = *rr;
                    }
                    SxNode::A(_) => break,
                }
            }
            out.count("probe.guard_values_checked", case.guard_slots as u64);
        }
        // --- nesting limit
        if let Some(depth) = case.nest_depth
            && case.spoiled
        {
            out.count("fault.chain_cost_spoiled", 1);
            if !flags.contains(ClvmFlags::NEW_COST_MODEL) && !(flags.contains(ClvmFlags::LIMIT_SOFTFORK) && depth > 20) {
                // every guard of the chain executes, none is cost-exempt: the run cannot succeed
                if let Ok((c, _, _)) = &r.res {
                    out.fail(Violation::new(
                        "guard-consumes-declared-cost",
                        format!("a chain of {depth} guards in which one declares a cost it does not consume ran to completion (cost {c})"),
                    ));
                    return fin(out, fp);
                }
            }
            out.nontrivial = true;
            return fin(out, fp);
        }
        if let Some(depth) = case.nest_depth {
            let limited = flags.contains(ClvmFlags::LIMIT_SOFTFORK);
            out.count(&format!("probe.nest_depth.{}", if depth > 20 { "over20" } else if depth == 20 { "exactly20" } else { "below20" }), 1);
            match &r.res {
                Ok((_, _, t)) => {
                    if limited && depth > 20 {
                        out.fail(Violation::new("softfork-depth-limit", format!("{depth} nested guards succeeded under LIMIT_SOFTFORK")).with("side", "too-deep-accepted"));
                        return fin(out, fp);
                    }
                    if let Some(t) = t
                        && !matches!(&t.nodes[t.root as usize], SxNode::A(b) if b.is_empty())
                    {
                        out.fail(Violation::new("guard-yields-nil", format!("a chain of {depth} guards evaluates to {}", t.brief(60))));
                        return fin(out, fp);
                    }
                    if completed != depth as u64 {
                        out.fail(Violation::new("guard-probe-balance", format!("{depth} nested guards but {completed} completed")));
                        return fin(out, fp);
                    }
                }
                Err((k, _)) => {
                    if limited && depth > 20 {
                        if k != "SoftforkStackDepthExceeded" {
                            out.fail(Violation::new("softfork-depth-limit", format!("{depth} nested guards under LIMIT_SOFTFORK failed with {k}, expected the stack-depth error")).with("side", "wrong-error"));
                            return fin(out, fp);
                        }
                    } else {
                        out.fail(Violation::new("softfork-depth-limit", format!("{depth} nested guards (LIMIT_SOFTFORK={limited}) with measured costs failed: {}", r.brief())).with("side", "allowed-depth-rejected"));
                        return fin(out, fp);
                    }
                }
            }
        }
        out.nontrivial = completed > 0;
        fin(out, fp)
    }

    fn shrink(case: &Case31) -> Vec<Case31> {
        let mut v = Vec::new();
        if case.first.is_some() {
            v.push(Case31 { first: None, ..case.clone() });
        }
        if case.heap_limit.is_some() {
            v.push(Case31 {
                heap_limit: None,
                ..case.clone()
            });
        }
        if case.nest_depth.is_none() {
            for t in case.target.prog.shrink_candidates().into_iter().take(200) {
                v.push(Case31 {
                    target: Prog31 {
                        prog: t,
                        env: case.target.env.clone(),
                    },
                    guard_slots: 0,
                    ..case.clone()
                });
            }
        }
        v
    }

    fn sample(case: &Case31) -> Value {
        json!({"target": case.target.prog.brief(240), "flags": format!("{:#x}", case.flags), "first_run_budget": case.first.as_ref().map(|f| f.1), "heap_limit": case.heap_limit, "nest_depth": case.nest_depth})
    }
    fn rule() -> &'static str {
        "case = seeded program whose value exposes guard results ((c GUARD (q . ())) wrappers; guards nested up to 4 by the generator, extensions 0 and 1, both cost models, measured declared costs with 5% left wrong on purpose), optionally preceded on the same allocator by another guarded program aborted by a budget that strikes between a guard's enter and exit probe, optionally on a heap-limited allocator; 1/8 of the cases are chains of 1..25 nested guards with and without LIMIT_SOFTFORK. Oracles from the guard-enter / guard-exit probes: counters at exit equal counters at entry; cost consumed equals the declared cost unless the probe marks the guard cost-exempt (only possible under NEW_COST_MODEL); every non-exempt guard is held to a cost that a softfork call of the program text declares; guard positions in the result hold nil; a chain in which one guard's declared cost was changed after calibration never completes (old cost model); depth 21+ fails with the stack-depth error under LIMIT_SOFTFORK while 20 succeeds. Non-trivial: at least one guard completed."
    }
    fn default_runs(tier: Tier) -> u64 {
        match tier {
            Tier::Quick => 4_000_000,
            Tier::Thorough => 2_000_000_000,
        }
    }
    fn real_components() -> &'static [&'static str] {
        &["run_program softfork guard entry / exit", "Allocator::checkpoint / restore_checkpoint", "ChiaDialect::softfork_extension under both cost models"]
    }
    fn stub_components() -> &'static [&'static str] {
        &["guard-enter / guard-exit / step probes", "cost calibration of generated guards", "budget placed inside a guard for the aborted first run"]
    }
    fn assumptions() -> &'static [&'static str] {
        &["the probes report the allocator's own counters immediately after the guard checkpoint is taken and immediately after it is restored"]
    }
    fn reach_probes() -> &'static [&'static str] {
        &[
            "probe.guards_completed",
            "probe.nested_guards",
            "probe.exempt_guards_completed",
            "probe.guard_values_checked",
            "fault.first_run_aborted_inside_guard",
            "probe.nest_depth.over20",
            "probe.nest_depth.exactly20",
            "fault.chain_cost_spoiled",
        ]
    }
}
