//! C29 — size-limited serializers fail exactly at the limit with OutOfMemory.
//! Fault: output space exhausted after exactly L bytes, enumerated over every
//! L (small outputs) or around every token boundary (large outputs).

use crate::core::{Ctx, Outcome, Scenario, Tier, Violation};
use crate::wgen::{TreeCfg, gen_tree};
use crate::model::{self, Tok, TokKind};
use crate::rng::{Fp, Rng};
use crate::seams::{IoSchedule, SimWriter};
use crate::sx::Sx;
use crate::util::{err_name, sx_serde};
use clvmr::allocator::Allocator;
use clvmr::error::EvalErr;
use clvmr::serde::{
    LimitedWriter, node_to_bytes_backrefs, node_to_bytes_backrefs_limit, node_to_bytes_limit, node_to_stream,
    node_to_stream_backrefs,
};
use serde::{Deserialize, Serialize};
use serde_json::{Value, json};

pub struct C29;

#[derive(Clone, Serialize, Deserialize)]
pub struct Case {
    #[serde(with = "sx_serde")]
    pub tree: Sx,
    /// seed of the extra (non-boundary) limits used for large outputs
    pub extra_seed: u64,
    /// benign writer schedule for the streaming variant
    pub sched: IoSchedule,
    /// if set, only these limits are tried (minimised replay files)
    pub only: Option<Vec<u64>>,
    /// non-zero: seed of a per-atom representation plan for the tree handed to the serializers
    #[serde(default)]
    pub repr: u64,
}

fn tok_at(toks: &[Tok], off: usize) -> &'static str {
    for t in toks {
        if t.off <= off && off < t.off + t.len {
            return match t.kind {
                TokKind::Cons => "cons-marker",
                TokKind::AtomPrefix => "atom-prefix",
                TokKind::AtomBody => "atom-body",
                TokKind::BackRef => "backref-marker",
                TokKind::PathPrefix => "path-prefix",
                TokKind::PathBody => "path-body",
            };
        }
    }
    "end"
}

/// `work_cap`: upper bound on the number of limits, so that (limits x tree size) stays bounded
/// and a case never takes more than a few seconds (big trees get fewer limits)
fn limits_for(full_len: usize, toks: &[Tok], extra_seed: u64, only: &Option<Vec<u64>>, work_cap: usize) -> (Vec<usize>, bool) {
    if let Some(o) = only {
        return (o.iter().map(|x| *x as usize).collect(), false);
    }
    if full_len <= 4096 && full_len + 2 <= work_cap {
        return ((0..=full_len + 1).collect(), true);
    }
    let mut v: Vec<usize> = Vec::new();
    for t in toks {
        for p in [t.off, t.off + t.len] {
            for d in -2i64..=2 {
                let x = p as i64 + d;
                if x >= 0 && x as usize <= full_len + 1 {
                    v.push(x as usize);
                }
            }
        }
    }
    let mut r = Rng::new(extra_seed);
    for _ in 0..64 {
        v.push(r.usize(full_len + 2));
    }
    v.extend([0, 1, full_len.saturating_sub(1), full_len, full_len + 1]);
    v.sort_unstable();
    v.dedup();
    // bound the sweep: at most min(6000, work_cap) limits, evenly thinned but keeping the ends
    let max_limits = work_cap.clamp(16, 6000);
    if v.len() > max_limits {
        let step = v.len() / max_limits + 1;
        let ends: Vec<usize> = v[v.len() - 5..].to_vec();
        v = v.into_iter().step_by(step).collect();
        v.extend(ends);
        v.sort_unstable();
        v.dedup();
    }
    (v, false)
}

impl Scenario for C29 {
    const ID: &'static str = "C29";
    const LEVEL: &'static str = "fault_enumeration";
    type Case = Case;

    fn generate(rng: &mut Rng, tier: Tier, _run: u64) -> Case {
        let mut cfg = TreeCfg::swarm(rng, tier == Tier::Thorough);
        if tier == Tier::Quick && cfg.max_leaves < 600 {
            cfg.max_leaves = cfg.max_leaves.min(120);
            if rng.chance(3, 4) {
                cfg.medium_atoms = false;
            }
        }
        let tree = gen_tree(rng, &cfg);
        let sched = IoSchedule::benign(rng, 64, true);
        Case {
            tree,
            extra_seed: rng.next_u64(),
            sched,
            only: None,
            repr: if rng.chance(1, 4) { rng.next_u64() | 1 } else { 0 },
        }
    }

    fn execute(case: &Case, _ctx: &Ctx) -> Outcome {
        let mut out = Outcome::default();
        let mut fp = Fp::default();
        let mut a = Allocator::new();
        let Ok(node) = crate::scen::interp2::to_alloc_repr(&mut a, &case.tree, case.repr, &mut out) else {
            return out;
        };
        if model::ser_len(&case.tree) > 24 << 20 {
            return out; // expanded form too large to be a useful case
        }
        let (model_full, toks) = model::ser_classic(&case.tree);

        for api in ["classic", "backrefs"] {
            let full: Vec<u8> = if api == "classic" {
                match node_to_bytes_limit(&a, node, usize::MAX) {
                    Ok(b) => b,
                    Err(e) => {
                        out.fail(Violation::new("unlimited-serialization-ok", format!("{api}: unlimited serialization failed: {e}")).with("api", api));
                        return out;
                    }
                }
            } else {
                match node_to_bytes_backrefs(&a, node) {
                    Ok(b) => b,
                    Err(e) => {
                        out.fail(Violation::new("unlimited-serialization-ok", format!("{api}: unlimited serialization failed: {e}")).with("api", api));
                        return out;
                    }
                }
            };
            out.evals += 1;
            fp.str(api);
            fp.bytes(&full);
            let toks_api: Vec<Tok> = if api == "classic" {
                if full != model_full {
                    out.fail(
                        Violation::new("unlimited-equals-model", format!("classic serialization differs from the reference serializer ({} vs {} bytes)", full.len(), model_full.len()))
                            .with("api", api),
                    );
                    return out;
                }
                toks.clone()
            } else {
                match model::decode(&full, true, 4_000_000) {
                    Ok(d) => d.toks,
                    Err(_) => Vec::new(),
                }
            };
            // a back-reference serialization of an n-node tree costs roughly n * 10 us: keep a case
            // to a few seconds even for 12k-node trees
            let work_cap = 300_000 / case.tree.nodes.len().max(1);
            let (limits, exhaustive) = limits_for(full.len(), &toks_api, case.extra_seed, &case.only, work_cap);
            if exhaustive {
                out.count("exhaustive_sweeps", 1);
            } else {
                out.count("boundary_sweeps", 1);
            }
            for l in limits {
                let r = if api == "classic" {
                    node_to_bytes_limit(&a, node, l)
                } else {
                    node_to_bytes_backrefs_limit(&a, node, l)
                };
                out.evals += 1;
                let tok = tok_at(&toks_api, l);
                if full.len() <= l {
                    out.count("fault.limit_not_reached", 1);
                    match r {
                        Ok(b) if b == full => {}
                        Ok(b) => {
                            out.fail(
                                Violation::new("fits-returns-full", format!("{api}: limit {l} >= len {} but output differs ({} bytes)", full.len(), b.len()))
                                    .with("api", api),
                            );
                            return finish(out, fp);
                        }
                        Err(e) => {
                            out.fail(
                                Violation::new("fits-returns-full", format!("{api}: limit {l} >= len {} but got error {}", full.len(), err_name(&e)))
                                    .with("api", api)
                                    .with("got", err_name(&e)),
                            );
                            return finish(out, fp);
                        }
                    }
                } else {
                    out.count(&format!("fault.limit_crossed_at.{tok}"), 1);
                    match r {
                        Err(EvalErr::OutOfMemory) => {}
                        Err(e) => {
                            out.fail(
                                Violation::new(
                                    "over-limit-is-oom",
                                    format!("{api}: limit {l} < len {}: expected OutOfMemory, got {} (limit crossed inside {tok})", full.len(), err_name(&e)),
                                )
                                .with("api", api)
                                .with("got", err_name(&e))
                                .with("token", tok),
                            );
                            return finish(out, fp);
                        }
                        Ok(b) => {
                            out.fail(
                                Violation::new("over-limit-is-oom", format!("{api}: limit {l} < len {} but serialization succeeded with {} bytes", full.len(), b.len()))
                                    .with("api", api)
                                    .with("got", "Ok")
                                    .with("token", tok),
                            );
                            return finish(out, fp);
                        }
                    }
                }
            }
            // streaming variant: LimitedWriter over a writer that accepts short
            // writes and raises EINTR; same oracle, at three limits
            for l in [full.len().saturating_sub(1), full.len(), full.len() / 2] {
                let w = SimWriter::new(&case.sched);
                let mut lw = LimitedWriter::new(w, l);
                let r = if api == "classic" {
                    node_to_stream(&a, node, &mut lw)
                } else {
                    node_to_stream_backrefs(&a, node, &mut lw)
                };
                out.evals += 1;
                let w = lw.into_inner();
                out.count("fault.writer_short", w.stats.short);
                out.count("fault.writer_eintr", w.stats.intr);
                out.count("sim.bytes_written", w.stats.bytes);
                let ok = if full.len() <= l {
                    r.is_ok() && w.out == full
                } else {
                    matches!(r, Err(EvalErr::OutOfMemory)) && full.starts_with(&w.out)
                };
                if !ok {
                    out.fail(
                        Violation::new(
                            "streaming-limit",
                            format!("{api}: LimitedWriter(limit {l}) over a short-writing stream: result {:?}, {} bytes accepted, full len {}", r.as_ref().map_err(err_name), w.out.len(), full.len()),
                        )
                        .with("api", api),
                    );
                    return finish(out, fp);
                }
            }
        }
        out.nontrivial = model_full.len() >= 4 && case.tree.nodes.len() >= 3;
        finish(out, fp)
    }

    fn shrink(case: &Case) -> Vec<Case> {
        let mut v: Vec<Case> = case
            .tree
            .shrink_candidates()
            .into_iter()
            .map(|t| Case {
                tree: t,
                extra_seed: case.extra_seed,
                sched: case.sched.clone(),
                only: None,
                repr: case.repr,
            })
            .collect();
        if case.repr != 0 {
            v.push(Case { repr: 0, ..case.clone() });
        }
        if !case.sched.steps.is_empty() {
            v.push(Case {
                sched: IoSchedule::clean(),
                ..case.clone()
            });
        }
        v
    }

    fn sample(case: &Case) -> Value {
        json!({"tree": case.tree.brief(160), "nodes": case.tree.nodes.len(), "classic_len": model::ser_len(&case.tree), "limits": "every L in 0..=len+1 (len<=4096) else +-2 around every token boundary + 64 seeded"})
    }

    fn rule() -> &'static str {
        "case = seeded tree (swarm sizes/atom classes/sharing); for each of node_to_bytes_limit and node_to_bytes_backrefs_limit the limit L is enumerated over 0..=len+1 when len<=4096 (exhaustive per case) and otherwise +-2 around every token boundary of the output plus 64 seeded values; plus LimitedWriter over a short-writing/EINTR stream. Non-trivial: tree with >=3 nodes and >=4 output bytes; distinct = distinct fingerprints of (output bytes of both serializers)."
    }
    fn default_runs(tier: Tier) -> u64 {
        match tier {
            Tier::Quick => 45_000,
            Tier::Thorough => 40_000_000,
        }
    }
    fn real_components() -> &'static [&'static str] {
        &["clvmr::Allocator", "serde::node_to_bytes_limit", "serde::node_to_bytes_backrefs_limit", "serde::LimitedWriter", "serde::node_to_stream(_backrefs)", "serde::write_atom", "ReadCacheLookup/ObjectCache"]
    }
    fn stub_components() -> &'static [&'static str] {
        &["SimWriter (short writes, EINTR) under LimitedWriter", "reference classic serializer and token map (sim/src/model.rs)"]
    }
    fn assumptions() -> &'static [&'static str] {
        &["sampling over trees; exhaustive over the limit only per generated case", "trees whose expanded classic form exceeds 24 MiB are skipped"]
    }
    fn reach_probes() -> &'static [&'static str] {
        &[
            "fault.limit_crossed_at.cons-marker",
            "fault.limit_crossed_at.atom-prefix",
            "fault.limit_crossed_at.atom-body",
            "fault.limit_crossed_at.backref-marker",
            "fault.limit_crossed_at.path-body",
            "fault.writer_short",
            "fault.writer_eintr",
        ]
    }
}

fn finish(mut out: Outcome, fp: Fp) -> Outcome {
    out.fingerprint = fp.finish();
    out
}
