//! C16 — classic decoders are total and agree (node_from_bytes,
//!        tree_hash_from_stream on contiguous bytes; parse_triples through a
//!        fault-injecting reader).
//! C20 — serde_2026 round-trips, is total, is recognisable (Read/Write seams,
//!        max_atom_len, allocation monitor).

use crate::core::{Ctx, Outcome, Scenario, Tier, Violation};
use crate::model::{self, TokKind};
use crate::rng::{Fp, Rng};
use crate::seams::{IoKind, IoSchedule, MemScope, SimReader, SimWriter};
use crate::sx::{Sx, SxNode};
use crate::util::{err_name, hex_serde, hex_short, sx_serde};
use crate::wgen::{Mutation, TreeCfg, gen_tree, mutate_bytes};
use clvmr::allocator::Allocator;
use clvmr::error::EvalErr;
use clvmr::serde::{
    ParsedTriple, is_canonical_serialization, node_from_bytes, node_from_bytes_backrefs, node_from_bytes_backrefs_old, node_from_stream, parse_triples,
    tree_hash_from_stream,
};
use clvmr::serde_2026::{
    SERDE_2026_MAGIC_PREFIX, deserialize_2026, deserialize_2026_body_from_stream, deserialize_2026_from_stream, serialize_2026,
    serialize_2026_body_to_stream, serialize_2026_to_stream, serialized_length_serde_2026,
};
use serde::{Deserialize, Serialize};
use serde_json::{Value, json};
use std::io::Cursor;

const MEM_SLACK: usize = 2 << 20;
const MEM_PER_BYTE: usize = 256;

fn fin(mut out: Outcome, fp: Fp) -> Outcome {
    out.fingerprint = fp.finish();
    out
}

/// the i-th byte string in length-lexicographic order (i = 0 is the empty string)
fn nth_short_string(mut i: u64) -> Vec<u8> {
    let mut len = 0usize;
    let mut count = 1u64;
    while i >= count {
        i -= count;
        len += 1;
        count *= 256;
    }
    let mut v = vec![0u8; len];
    for k in (0..len).rev() {
        v[k] = (i & 0xff) as u8;
        i >>= 8;
    }
    v
}

fn hard_fault_for(rng: &mut Rng, len: usize, boundaries: &[usize], reader: bool) -> Option<(u64, Option<IoKind>)> {
    if len == 0 {
        return None;
    }
    let at = if !boundaries.is_empty() && rng.chance(3, 4) {
        let p = *rng.pick(boundaries) as i64 + rng.below(3) as i64 - 1;
        p.clamp(0, len as i64 + 1) as u64
    } else {
        rng.below(len as u64 + 2)
    };
    let kind = if reader {
        match rng.below(5) {
            0 | 1 => None, // EOF
            2 => Some(IoKind::Other),
            3 => Some(IoKind::UnexpectedEof),
            _ => Some(*rng.pick(&[IoKind::WouldBlock, IoKind::OutOfMemory, IoKind::BrokenPipe])),
        }
    } else {
        Some(*rng.pick(&[IoKind::OutOfMemory, IoKind::StorageFull, IoKind::Other, IoKind::BrokenPipe]))
    };
    Some((at, kind))
}

// ---------------------------------------------------------------------------
// C16

pub struct C16;

#[derive(Clone, Serialize, Deserialize)]
pub struct Case16 {
    #[serde(with = "hex_serde")]
    pub bytes: Vec<u8>,
    pub sched: IoSchedule,
    pub hashes: bool,
    /// non-zero: before the calls that are judged, every decoder is first run on the first
    /// `prelude` per-mille of the input (calls that mostly fail half-way) in the same thread
    #[serde(default)]
    pub prelude: u16,
}

fn triples_to_sx(b: &[u8], triples: &[ParsedTriple]) -> Option<Sx> {
    // node i of the triple array; children of a pair are i+1 and right_index (both > i)
    let n = triples.len();
    let mut t = Sx {
        nodes: Vec::with_capacity(n),
        root: 0,
    };
    let mut idx = vec![0u32; n];
    for i in (0..n).rev() {
        match &triples[i] {
            ParsedTriple::Atom { start, end, atom_offset } => {
                let s = (*start + *atom_offset as u64) as usize;
                let e = *end as usize;
                if s > e || e > b.len() {
                    return None;
                }
                // the single byte 0x80 denotes the empty atom
                let bytes = if *atom_offset == 1 && e == s { &b[s..s] } else { &b[s..e] };
                idx[i] = t.push_atom(bytes);
            }
            ParsedTriple::Pair { right_index, .. } => {
                let l = i + 1;
                let r = *right_index as usize;
                if l >= n || r >= n || r <= i {
                    return None;
                }
                idx[i] = t.push_pair(idx[l], idx[r]);
            }
        }
    }
    if n == 0 {
        return None;
    }
    t.root = idx[0];
    Some(t)
}

impl Scenario for C16 {
    const ID: &'static str = "C16";
    const LEVEL: &'static str = "exploration";
    type Case = Case16;

    fn generate(rng: &mut Rng, tier: Tier, run: u64) -> Case16 {
        let thorough = tier == Tier::Thorough;
        let exhaustive_upto: u64 = 1 + 256 + 65536; // all strings of length <= 2
        let hashes = rng.chance(2, 3);
        if run < exhaustive_upto {
            let bytes = nth_short_string(run);
            let mut sched = IoSchedule::benign(rng, 8, false);
            if rng.chance(1, 3) {
                sched.hard = hard_fault_for(rng, bytes.len(), &[], true);
            }
            return Case16 { bytes, sched, hashes, prelude: 0 };
        }
        if thorough && run < exhaustive_upto + (1 << 24) / 16 {
            // a 1/16 sample of the 3-byte strings, stratified by the first two bytes
            let k = run - exhaustive_upto;
            let hi = (k >> 4) as u32; // 0..65536 (two leading bytes) x 16 samples each
            let bytes = vec![(hi >> 8) as u8, hi as u8, rng.below(256) as u8];
            return Case16 {
                bytes,
                sched: IoSchedule::benign(rng, 8, false),
                hashes,
                prelude: 0,
            };
        }
        // rarely: a huge structure (up to 1.3 M nodes deep or long), built directly as bytes
        if rng.chance(1, if thorough { 20_000 } else { 150_000 }) {
            let n = *rng.pick(&[70_000usize, 300_000, 600_000, 1_100_000, 1_300_000]);
            let atom: Vec<u8> = match rng.below(3) {
                0 => vec![0x80],
                1 => vec![0x2a],
                _ => vec![0x82, 0x01, 0x02],
            };
            let mut bytes: Vec<u8> = Vec::with_capacity(n * 4);
            if rng.bool() {
                // left-nested: ff ff ff ... a a a a
                bytes.resize(n, 0xff);
                for _ in 0..=n {
                    bytes.extend_from_slice(&atom);
                }
            } else {
                // a list: (ff a)* 80
                for _ in 0..n {
                    bytes.push(0xff);
                    bytes.extend_from_slice(&atom);
                }
                bytes.push(0x80);
            }
            if rng.chance(1, 4) {
                bytes.pop(); // truncated by one byte
            }
            return Case16 {
                bytes,
                sched: IoSchedule::clean(),
                hashes: rng.bool(),
                prelude: 0,
            };
        }
        let mut cfg = TreeCfg::swarm(rng, thorough);
        if !thorough && cfg.max_leaves < 600 {
            cfg.max_leaves = cfg.max_leaves.min(150);
        }
        let mut tree = gen_tree(rng, &cfg);
        while model::ser_len(&tree) > 4 << 20 {
            cfg.max_leaves = (cfg.max_leaves / 2).max(1);
            cfg.huge_atoms = false;
            tree = gen_tree(rng, &cfg);
        }
        let (ser, toks) = model::ser_classic(&tree);
        let boundaries: Vec<usize> = toks.iter().map(|t| t.off).chain(toks.iter().map(|t| t.off + t.len)).collect();
        let (bytes, _m) = mutate_bytes(rng, &ser, &boundaries);
        let calls = 16 + toks.len().min(400) * 2;
        let mut sched = if rng.chance(1, 6) { IoSchedule::clean() } else { IoSchedule::benign(rng, calls, false) };
        if rng.chance(2, 5) {
            sched.hard = hard_fault_for(rng, bytes.len(), &boundaries, true);
        }
        let prelude = if rng.chance(1, 4) { 1 + rng.below(999) as u16 } else { 0 };
        Case16 { bytes, sched, hashes, prelude }
    }

    fn execute(case: &Case16, _ctx: &Ctx) -> Outcome {
        let mut out = Outcome::default();
        let mut fp = Fp::default();
        let b = &case.bytes;
        fp.bytes(b);
        let mem_bound = MEM_PER_BYTE * b.len() + MEM_SLACK;

        if case.prelude > 0 && b.len() >= 2 {
            // earlier calls in this thread that (mostly) fail half-way; nothing is judged here
            let cut = (b.len() * case.prelude as usize / 1000).clamp(1, b.len() - 1);
            let pre = &b[..cut];
            let mut a0 = Allocator::new();
            let f1 = node_from_bytes(&mut a0, pre).is_err();
            let f2 = tree_hash_from_stream(&mut Cursor::new(pre)).is_err();
            let f3 = parse_triples(&mut Cursor::new(pre), case.hashes).is_err();
            out.count("fault.prior_call_failed", f1 as u64 + f2 as u64 + f3 as u64);
        }

        // --- client 1: node_from_bytes (contiguous)
        let ms = MemScope::start();
        let mut a = Allocator::new();
        let mut c1 = Cursor::new(b.as_slice());
        let r1 = node_from_stream(&mut a, &mut c1);
        let peak1 = ms.peak();
        out.evals += 1;
        {
            // node_from_bytes is the same entry point without the position
            let mut a1 = Allocator::new();
            let r1b = node_from_bytes(&mut a1, b);
            if r1b.is_ok() != r1.is_ok() {
                out.fail(Violation::new("node_from_bytes-equals-stream", "node_from_bytes and node_from_stream disagree on acceptance".to_string()));
                return fin(out, fp);
            }
        }
        // --- client 2: tree_hash_from_stream (contiguous)
        let ms = MemScope::start();
        let mut c2 = Cursor::new(b.as_slice());
        let r2 = tree_hash_from_stream(&mut c2);
        let peak2 = ms.peak();
        out.evals += 1;
        // --- client 3: parse_triples (contiguous)
        let ms = MemScope::start();
        let mut c3 = Cursor::new(b.as_slice());
        let r3 = parse_triples(&mut c3, case.hashes);
        let peak3 = ms.peak();
        out.evals += 1;
        // --- client 4: parse_triples through the simulated reader
        let ms = MemScope::start();
        let mut rd = SimReader::new(b, &case.sched);
        let r4 = parse_triples(&mut rd, case.hashes);
        let peak4 = ms.peak();
        out.evals += 1;
        out.count("fault.reader_short", rd.stats.short);
        out.count("fault.reader_eintr", rd.stats.intr);
        out.count("fault.reader_eof_fired", rd.stats.eof_fired);
        out.count("fault.reader_err_fired", rd.stats.err_fired);
        out.count("sim.bytes_read", rd.stats.bytes);

        for (name, peak) in [("node_from_bytes", peak1), ("tree_hash_from_stream", peak2), ("parse_triples", peak3), ("parse_triples(stream)", peak4)] {
            if peak > mem_bound {
                out.fail(
                    Violation::new("no-over-allocation", format!("{name} allocated a peak of {peak} bytes for a {}-byte input (bound {mem_bound})", b.len())).with("fn", name),
                );
                return fin(out, fp);
            }
        }

        // acceptance sets equal
        let acc = (r1.is_ok(), r2.is_ok(), r3.is_ok());
        fp.u64(acc.0 as u64 | (acc.1 as u64) << 1 | (acc.2 as u64) << 2);
        if !(acc.0 == acc.1 && acc.1 == acc.2) {
            out.fail(
                Violation::new(
                    "same-acceptance",
                    format!(
                        "input {}: node_from_bytes {}, tree_hash_from_stream {}, parse_triples {}",
                        hex_short(b),
                        r1.as_ref().map(|_| "ok").unwrap_or_else(|e| err_name(e)),
                        r2.as_ref().map(|_| "ok").unwrap_or_else(|e| err_name(e)),
                        r3.as_ref().map(|_| "ok").unwrap_or_else(|e| err_name(e))
                    ),
                )
                .with("accepts", &format!("{}{}{}", acc.0 as u8, acc.1 as u8, acc.2 as u8)),
            );
            return fin(out, fp);
        }
        // the reference decoder agrees on acceptance
        let md = model::decode(b, false, 64_000_000);
        if md.is_ok() != acc.0 {
            out.fail(Violation::new(
                "acceptance-matches-format",
                format!("input {}: decoders say {}, the format description says {:?}", hex_short(b), if acc.0 { "ok" } else { "reject" }, md.as_ref().map(|d| d.consumed).map_err(|e| e.clone())),
            ));
            return fin(out, fp);
        }

        let hard = case.sched.hard;
        if !acc.0 {
            out.count("probe.rejected_inputs", 1);
            // invalid input: the streaming client must fail too, whatever the faults
            if r4.is_ok() {
                out.fail(Violation::new("stream-same-acceptance", format!("input {} is rejected contiguously but parse_triples accepted it through the simulated reader", hex_short(b))));
            }
            out.nontrivial = b.len() >= 2;
            return fin(out, fp);
        }
        out.count("probe.accepted_inputs", 1);
        let node = r1.unwrap();
        let h2 = r2.unwrap();
        let (triples, hashes) = r3.unwrap();
        let md = md.unwrap();
        let consumed = c1.position();
        // consumed bytes equal
        let end0 = match &triples[0] {
            ParsedTriple::Atom { end, .. } => *end,
            ParsedTriple::Pair { end, .. } => *end,
        };
        if !(consumed == c2.position() && consumed == c3.position() && consumed == end0 && consumed == md.consumed as u64) {
            out.fail(Violation::new(
                "same-consumed",
                format!(
                    "input {}: node_from_bytes consumed {}, tree_hash_from_stream {}, parse_triples {} (triple[0].end {}), format {}",
                    hex_short(b),
                    consumed,
                    c2.position(),
                    c3.position(),
                    end0,
                    md.consumed
                ),
            ));
            return fin(out, fp);
        }
        // same tree
        let t1 = Sx::from_alloc(&a, node, 64_000_000);
        let t3 = triples_to_sx(b, &triples);
        let (Some(t1), Some(t3)) = (t1, t3) else {
            out.fail(Violation::new("same-tree", format!("input {}: triples do not describe a tree", hex_short(b))));
            return fin(out, fp);
        };
        let hashes1 = t1.tree_hashes();
        let th1 = hashes1[t1.root as usize];
        if th1 != t3.tree_hash() || th1 != md.tree.tree_hash() {
            out.fail(Violation::new("same-tree", format!("input {}: node_from_bytes, parse_triples and the format description do not describe the same tree", hex_short(b))));
            return fin(out, fp);
        }
        if h2 != th1 {
            out.fail(Violation::new("same-tree-hash", format!("input {}: tree_hash_from_stream differs from the recursive definition", hex_short(b))).with("fn", "tree_hash_from_stream"));
            return fin(out, fp);
        }
        if case.hashes {
            let hs = hashes.as_ref().expect("hashes requested");
            // hash of node i in the triple array = tree hash of that sub-tree
            let t3h = t3.tree_hashes();
            // t3 was built in reverse: node for triple i is at arena index idx[i]; recompute mapping
            // (same construction order as triples_to_sx: last triple first)
            let n = triples.len();
            let mut ok = hs.len() == n;
            if ok {
                // arena index of triple i
                let mut k = 0usize;
                let mut idx = vec![0usize; n];
                for i in (0..n).rev() {
                    idx[i] = k;
                    k += 1;
                }
                for i in 0..n {
                    if hs[i] != t3h[idx[i]] {
                        ok = false;
                        break;
                    }
                }
            }
            if !ok {
                out.fail(Violation::new("same-tree-hash", format!("input {}: hashes returned by parse_triples differ from the recursive definition", hex_short(b))).with("fn", "parse_triples"));
                return fin(out, fp);
            }
        } else if hashes.is_some() {
            out.fail(Violation::new("same-tree-hash", "parse_triples returned hashes although none were requested".to_string()));
            return fin(out, fp);
        }
        // canonical judgement
        let canon = is_canonical_serialization(b);
        let whole = consumed as usize == b.len();
        let reser = model::ser_len(&t1) == consumed && model::ser_classic(&t1).0 == b[..consumed as usize];
        if canon != (whole && reser) {
            out.fail(
                Violation::new(
                    "canonical-iff-reserializes",
                    format!("input {}: is_canonical_serialization={canon} but whole-input={whole} re-serializes-identically={reser}", hex_short(b)),
                )
                .with("canon", &canon.to_string()),
            );
            return fin(out, fp);
        }
        if canon {
            out.count("probe.canonical_inputs", 1);
        }

        // --- the streaming session
        let fault_before_end = matches!(hard, Some((at, _)) if at < consumed);
        match (&r4, fault_before_end) {
            (Ok(_), true) => {
                out.fail(
                    Violation::new(
                        "fault-before-end-fails",
                        format!("input {}: stream faulted at offset {} (< {} needed) but parse_triples succeeded", hex_short(b), hard.unwrap().0, consumed),
                    )
                    .with("fault", if hard.unwrap().1.is_some() { "error" } else { "eof" }),
                );
                return fin(out, fp);
            }
            (Err(_), true) => {
                out.count("fault.session_failed_as_expected", 1);
            }
            (Err(e), false) => {
                out.fail(Violation::new(
                    "benign-faults-transparent",
                    format!("input {}: accepted contiguously, but through a reader with only short reads / EINTR (hard fault {:?} not before offset {consumed}) parse_triples failed with {}", hex_short(b), hard, err_name(e)),
                ));
                return fin(out, fp);
            }
            (Ok((t4, h4)), false) => {
                if *t4 != triples || *h4 != hashes {
                    out.fail(Violation::new("benign-faults-transparent", format!("input {}: parse_triples returns a different result through the simulated reader", hex_short(b))));
                    return fin(out, fp);
                }
                if rd.consumed() as u64 != consumed {
                    out.fail(Violation::new("stream-consumed", format!("input {}: parse_triples took {} bytes from the stream, {} belong to the tree", hex_short(b), rd.consumed(), consumed)));
                    return fin(out, fp);
                }
                if rd.stats.max_requested > consumed {
                    out.fail(Violation::new(
                        "no-over-read",
                        format!("input {}: parse_triples asked the stream for bytes up to offset {}, the tree ends at {}", hex_short(b), rd.stats.max_requested, consumed),
                    ));
                    return fin(out, fp);
                }
            }
        }
        out.nontrivial = triples.len() >= 2 || b.len() >= 3;
        fp.u64(rd.stats.short + (rd.stats.intr << 16));
        fin(out, fp)
    }

    fn shrink(case: &Case16) -> Vec<Case16> {
        let mut v = Vec::new();
        let n = case.bytes.len();
        if case.prelude != 0 {
            v.push(Case16 { prelude: 0, ..case.clone() });
        }
        if !case.sched.steps.is_empty() || case.sched.hard.is_some() {
            v.push(Case16 {
                sched: IoSchedule::clean(),
                ..case.clone()
            });
            v.push(Case16 {
                sched: IoSchedule {
                    steps: vec![],
                    hard: case.sched.hard,
                },
                ..case.clone()
            });
            v.push(Case16 {
                sched: IoSchedule {
                    steps: case.sched.steps[..case.sched.steps.len() / 2].to_vec(),
                    hard: case.sched.hard,
                },
                ..case.clone()
            });
        }
        for cut in [n / 2, n.saturating_sub(1)] {
            if cut < n {
                v.push(Case16 {
                    bytes: case.bytes[..cut].to_vec(),
                    ..case.clone()
                });
            }
        }
        for i in 0..n.min(64) {
            let mut b = case.bytes.clone();
            b.remove(i);
            v.push(Case16 { bytes: b, ..case.clone() });
        }
        v
    }

    fn sample(case: &Case16) -> Value {
        json!({"bytes": hex_short(&case.bytes), "len": case.bytes.len(), "reader_steps": case.sched.steps.len(), "hard_fault": format!("{:?}", case.sched.hard), "hashes": case.hashes})
    }
    fn rule() -> &'static str {
        "case = a byte string (first 65,793 runs: every string of length <=2; thorough: 1/16 of the 3-byte strings; 1 in 150,000 (thorough 1 in 20,000): a structure of 70 k .. 1.3 M nodes, left-nested or a list; otherwise classic serializations of seeded trees (a quarter of them preceded, in the same thread, by a run of every decoder on a prefix of the input, i.e. by calls that fail half-way) under storage-fault mutations: bit flip, byte overwrite, truncation at token boundaries +-1, dropped/duplicated range, splice, trailing bytes, random) + a reader schedule (short reads, EINTR; 40% with EOF or an I/O error armed at an offset near a token boundary). Three clients decode it: node_from_bytes and tree_hash_from_stream on contiguous bytes, parse_triples through the simulated reader (and contiguously as its own reference). Non-trivial: >=2 triples or >=3 input bytes; distinct = fingerprints of (input bytes, acceptance, fault counts)."
    }
    fn default_runs(tier: Tier) -> u64 {
        match tier {
            Tier::Quick => 6_000_000,
            Tier::Thorough => 3_000_000_000,
        }
    }
    fn real_components() -> &'static [&'static str] {
        &["serde::node_from_bytes / node_from_stream", "serde::parse_triples (generic Read)", "serde::tree_hash_from_stream", "serde::is_canonical_serialization", "parse_atom::decode_size_with_offset, utils::copy_exactly"]
    }
    fn stub_components() -> &'static [&'static str] {
        &["SimReader (short reads, EINTR, EOF / error at an offset)", "allocation monitor (counting GlobalAlloc)", "reference classic decoder / serializer / tree hash (sim/src/model.rs, sim/src/sx.rs)"]
    }
    fn assumptions() -> &'static [&'static str] {
        &["over-allocation bound: peak <= 256*len + 2 MiB per call", "inputs up to ~4 MiB"]
    }
    fn reach_probes() -> &'static [&'static str] {
        &["fault.reader_short", "fault.reader_eintr", "fault.reader_eof_fired", "fault.reader_err_fired", "probe.accepted_inputs", "probe.rejected_inputs", "probe.canonical_inputs"]
    }
}

// ---------------------------------------------------------------------------
// C20

pub struct C20;

#[derive(Clone, Serialize, Deserialize)]
pub enum Case20 {
    RoundTrip {
        #[serde(with = "sx_serde")]
        tree: Sx,
        level: u32,
        wsched: IoSchedule,
        rsched: IoSchedule,
        #[serde(with = "hex_serde")]
        trailing: Vec<u8>,
        /// non-zero: seed of a per-atom representation plan for the tree handed to the serializer
        #[serde(default)]
        repr: u64,
    },
    Bytes {
        /// body (the magic prefix is prepended)
        #[serde(with = "hex_serde")]
        body: Vec<u8>,
        max_atom_len: u64,
        rsched: IoSchedule,
    },
    /// a body written by the harness from the format description (not by the serializer):
    /// any group order, unreferenced atoms, right-first conses, pair back-references, optionally
    /// over-long varints; `expect` is what the reference stack machine builds from it
    Structured {
        #[serde(with = "hex_serde")]
        body: Vec<u8>,
        #[serde(with = "sx_serde")]
        expect: Sx,
        overlong: bool,
        longest: u64,
        #[serde(with = "hex_serde")]
        trailing: Vec<u8>,
    },
}

/// varint writer from docs/serde-2026.md; `extra` adds that many bytes to the shortest encoding
fn ref_write_varint(out: &mut Vec<u8>, v: i64, extra: usize) {
    let mut n = 0usize; // additional bytes
    loop {
        let bits = 7 + 7 * n as u32;
        let min = -(1i64 << (bits - 1));
        let max = (1i64 << (bits - 1)) - 1;
        if v >= min && v <= max {
            break;
        }
        n += 1;
    }
    let n = (n + extra).min(7);
    let bits = 7 + 7 * n as u32;
    let u: u64 = if v < 0 { (v + (1i64 << bits)) as u64 } else { v as u64 };
    let lead: u8 = if n == 0 { 0 } else { (((1u16 << n) - 1) << (8 - n)) as u8 };
    out.push(lead | ((u >> (8 * n)) as u8 & (0xffu8 >> (n + 1).min(8))));
    for i in (0..n).rev() {
        out.push((u >> (8 * i)) as u8);
    }
}

fn gen_structured(rng: &mut Rng) -> Case20 {
    let overlong = rng.chance(1, 5);
    let mut extra = |rng: &mut Rng| -> usize { if overlong && rng.chance(1, 3) { 1 + rng.usize(2) } else { 0 } };
    let mut any_overlong = false;
    let mut body = Vec::new();
    let mut atoms: Vec<Vec<u8>> = Vec::new();
    let ngroups = rng.usize(7);
    {
        let e = extra(rng);
        any_overlong |= e > 0;
        ref_write_varint(&mut body, ngroups as i64, e);
    }
    let mut longest = 0usize;
    for _ in 0..ngroups {
        let len = match rng.below(6) {
            0..=2 => 1,
            3 => 1 + rng.usize(4),
            4 => *rng.pick(&[63usize, 64, 65, 32]),
            _ => 1 + rng.usize(40),
        };
        longest = longest.max(len);
        let count = if rng.chance(2, 3) { 1 } else { 1 + rng.usize(4) };
        if count == 1 && rng.chance(4, 5) {
            let e = extra(rng);
            any_overlong |= e > 0;
            ref_write_varint(&mut body, len as i64, e);
        } else {
            let e = extra(rng);
            any_overlong |= e > 0;
            ref_write_varint(&mut body, -(len as i64), e);
            let e = extra(rng);
            any_overlong |= e > 0;
            ref_write_varint(&mut body, count as i64, e);
        }
        for _ in 0..count {
            let a = rng.bytes(len);
            body.extend_from_slice(&a);
            atoms.push(a);
        }
    }
    // instruction list: a valid stack program
    let mut t = Sx { nodes: vec![], root: 0 };
    let mut stack: Vec<u32> = Vec::new();
    let mut pairs: Vec<u32> = Vec::new();
    let mut instrs: Vec<i64> = Vec::new();
    let steps = 1 + rng.usize(24);
    for _ in 0..steps {
        let c = rng.below(10);
        if stack.len() >= 2 && c < 4 {
            let (b, a) = (stack.pop().unwrap(), stack.pop().unwrap());
            // a was pushed first
            if rng.chance(3, 4) {
                instrs.push(1); // left pushed first
                let p = t.push_pair(a, b);
                pairs.push(p);
                stack.push(p);
            } else {
                instrs.push(-1); // right pushed first
                let p = t.push_pair(b, a);
                pairs.push(p);
                stack.push(p);
            }
        } else if c < 6 || (atoms.is_empty() && pairs.is_empty()) {
            instrs.push(0);
            let n = t.push_atom(&[]);
            stack.push(n);
        } else if !atoms.is_empty() && (c < 9 || pairs.is_empty()) {
            let i = rng.usize(atoms.len());
            instrs.push(i as i64 + 2);
            let n = t.push_atom(&atoms[i]);
            stack.push(n);
        } else {
            let i = rng.usize(pairs.len());
            instrs.push(-(i as i64) - 2);
            stack.push(pairs[i]);
        }
    }
    while stack.len() > 1 {
        let (b, a) = (stack.pop().unwrap(), stack.pop().unwrap());
        instrs.push(1);
        let p = t.push_pair(a, b);
        pairs.push(p);
        stack.push(p);
    }
    t.root = stack[0];
    {
        let e = extra(rng);
        any_overlong |= e > 0;
        ref_write_varint(&mut body, instrs.len() as i64, e);
    }
    for i in &instrs {
        let e = extra(rng);
        any_overlong |= e > 0;
        ref_write_varint(&mut body, *i, e);
    }
    let trailing = if rng.chance(1, 3) {
        let n = 1 + rng.usize(6);
        rng.bytes(n)
    } else {
        vec![]
    };
    Case20::Structured {
        body,
        expect: t.compact(),
        overlong: any_overlong,
        longest: longest as u64,
        trailing,
    }
}


fn longest_atom(t: &Sx) -> usize {
    // only atoms reachable from the root count
    let c = t.compact();
    c.nodes.iter().map(|n| if let SxNode::A(b) = n { b.len() } else { 0 }).max().unwrap_or(0)
}

impl Scenario for C20 {
    const ID: &'static str = "C20";
    const LEVEL: &'static str = "exploration";
    type Case = Case20;

    fn generate(rng: &mut Rng, tier: Tier, run: u64) -> Case20 {
        let thorough = tier == Tier::Thorough;
        let exhaustive_upto: u64 = 1 + 256 + 65536;
        if run < exhaustive_upto {
            return Case20::Bytes {
                body: nth_short_string(run),
                max_atom_len: *rng.pick(&[0u64, 1, 2, 1 << 16, 1 << 22]),
                rsched: IoSchedule::benign(rng, 8, false),
            };
        }
        let mut cfg = TreeCfg::swarm(rng, thorough);
        if !thorough && cfg.max_leaves < 600 {
            cfg.max_leaves = cfg.max_leaves.min(120);
        }
        let mut tree = gen_tree(rng, &cfg);
        while model::ser_len(&tree) > 4 << 20 {
            cfg.max_leaves = (cfg.max_leaves / 2).max(1);
            cfg.huge_atoms = false;
            tree = gen_tree(rng, &cfg);
        }
        let level = *rng.pick(&[0u32, 1, 7, u32::MAX]);
        if rng.chance(1, 4) {
            return gen_structured(rng);
        }
        if rng.chance(1, 2) {
            let wsched = {
                let mut s = IoSchedule::benign(rng, 64, true);
                if rng.chance(1, 3) {
                    s.hard = hard_fault_for(rng, 64, &[], false);
                }
                s
            };
            let rsched = {
                let mut s = IoSchedule::benign(rng, 64, false);
                if rng.chance(1, 3) {
                    s.hard = hard_fault_for(rng, 96, &[], true);
                }
                s
            };
            let trailing = if rng.chance(1, 3) {
                let n = 1 + rng.usize(8);
                rng.bytes(n)
            } else {
                vec![]
            };
            Case20::RoundTrip {
                tree,
                level,
                wsched,
                rsched,
                trailing,
                repr: if rng.chance(1, 2) { rng.next_u64() | 1 } else { 0 },
            }
        } else {
            // a valid blob under storage faults, or random bytes
            let mut a = Allocator::new();
            let body = match tree.to_alloc(&mut a).and_then(|n| {
                let mut v = Vec::new();
                serialize_2026_body_to_stream(&a, n, level, &mut v).map(|_| v)
            }) {
                Ok(v) => v,
                Err(_) => vec![0, 1, 0],
            };
            let (body, m) = mutate_bytes(rng, &body, &[]);
            let _ = m == Mutation::None;
            let max_atom_len = match rng.below(7) {
                0 => 0,
                1 => 1,
                2 => longest_atom(&tree).saturating_sub(1) as u64,
                3 => longest_atom(&tree) as u64,
                4 => 1 << 16,
                5 => 1 << 20,
                _ => 1 << 22,
            };
            Case20::Bytes {
                body,
                max_atom_len,
                rsched: IoSchedule::benign(rng, 48, false),
            }
        }
    }

    fn execute(case: &Case20, _ctx: &Ctx) -> Outcome {
        let mut out = Outcome::default();
        let mut fp = Fp::default();
        match case {
            Case20::RoundTrip {
                tree,
                level,
                wsched,
                rsched,
                trailing,
                repr,
            } => {
                let mut a = Allocator::new();
                let Ok(node) = crate::scen::interp2::to_alloc_repr(&mut a, tree, *repr, &mut out) else { return out };
                let blob = match serialize_2026(&a, node, *level) {
                    Ok(b) => b,
                    Err(e) => {
                        out.fail(Violation::new("serialize-ok", format!("serialize_2026 failed: {}", err_name(&e))));
                        return fin(out, fp);
                    }
                };
                out.evals += 1;
                fp.bytes(&blob);
                if !blob.starts_with(&SERDE_2026_MAGIC_PREFIX) {
                    out.fail(Violation::new("magic-prefix", "serialize_2026 output does not start with the magic prefix".to_string()));
                    return fin(out, fp);
                }
                // all levels give decodable output; same level twice gives the same bytes
                if serialize_2026(&a, node, *level).ok().as_ref() != Some(&blob) {
                    out.fail(Violation::new("serialize-deterministic", "serialize_2026 gives different bytes when repeated".to_string()));
                    return fin(out, fp);
                }
                // body-only serializer = blob without prefix
                {
                    let mut v = Vec::new();
                    let r = serialize_2026_body_to_stream(&a, node, *level, &mut v);
                    if r.is_err() || v != blob[6..] {
                        out.fail(Violation::new("body-equals-blob-tail", "serialize_2026_body_to_stream differs from serialize_2026 minus prefix".to_string()));
                        return fin(out, fp);
                    }
                }
                // --- writer session
                {
                    let mut sched = wsched.clone();
                    if let Some((at, k)) = sched.hard {
                        sched.hard = Some((at % (blob.len() as u64 + 2), k));
                    }
                    let mut w = SimWriter::new(&sched);
                    let r = serialize_2026_to_stream(&a, node, *level, &mut w);
                    out.evals += 1;
                    out.count("fault.writer_short", w.stats.short);
                    out.count("fault.writer_eintr", w.stats.intr);
                    out.count("fault.writer_err_fired", w.stats.err_fired);
                    out.count("sim.bytes_written", w.stats.bytes);
                    let faulted = matches!(sched.hard, Some((at, _)) if (at as usize) < blob.len());
                    if faulted {
                        if r.is_ok() {
                            out.fail(Violation::new("writer-fault-fails", format!("writer failed at offset {:?} of {} but serialize_2026_to_stream returned Ok", sched.hard, blob.len())));
                            return fin(out, fp);
                        }
                        if !blob.starts_with(&w.out) {
                            out.fail(Violation::new("writer-prefix", "bytes accepted before the fault are not a prefix of the serialization".to_string()));
                            return fin(out, fp);
                        }
                        // retry on a healthy writer (the function is stateless)
                        let clean = IoSchedule::clean();
                        let mut w2 = SimWriter::new(&clean);
                        let r2 = serialize_2026_to_stream(&a, node, *level, &mut w2);
                        if r2.is_err() || w2.out != blob {
                            out.fail(Violation::new("writer-retry", "retry after a failed stream write does not reproduce the serialization".to_string()));
                            return fin(out, fp);
                        }
                    } else if r.is_err() || w.out != blob {
                        out.fail(Violation::new(
                            "benign-writer-transparent",
                            format!("through a writer with short writes / EINTR: result {:?}, {} bytes vs {}", r.map_err(|e| err_name(&e)), w.out.len(), blob.len()),
                        ));
                        return fin(out, fp);
                    }
                }
                // --- decode strict and lenient, probe, with trailing data
                let mut full = blob.clone();
                full.extend_from_slice(trailing);
                let longest = longest_atom(tree);
                for strict in [true, false] {
                    for max in [longest, 1 << 22] {
                        let mut a2 = Allocator::new();
                        let mut cur = Cursor::new(full.as_slice());
                        let r = deserialize_2026_from_stream(&mut a2, &mut cur, max, strict);
                        out.evals += 1;
                        match r {
                            Ok(n2) => {
                                let same = Sx::from_alloc(&a2, n2, 64_000_000).map(|t| t.same_tree(tree)).unwrap_or(false);
                                if !same {
                                    out.fail(Violation::new("roundtrip-tree", format!("strict={strict} max_atom_len={max}: decoded tree differs")).with("strict", &strict.to_string()));
                                    return fin(out, fp);
                                }
                                if cur.position() != blob.len() as u64 {
                                    out.fail(Violation::new("roundtrip-consumed", format!("decoder consumed {} bytes, blob has {}", cur.position(), blob.len())));
                                    return fin(out, fp);
                                }
                            }
                            Err(e) => {
                                out.fail(
                                    Violation::new("roundtrip-tree", format!("strict={strict} max_atom_len={max} (longest atom {longest}): decoder rejects serialize_2026 output: {}", err_name(&e)))
                                        .with("strict", &strict.to_string()),
                                );
                                return fin(out, fp);
                            }
                        }
                        match serialized_length_serde_2026(&full, max, strict) {
                            Ok(l) if l == blob.len() as u64 => {}
                            other => {
                                out.fail(Violation::new(
                                    "probe-equals-length",
                                    format!("serialized_length_serde_2026(strict={strict}, max={max}) = {:?}, blob length {}", other.map_err(|e| err_name(&e)), blob.len()),
                                ));
                                return fin(out, fp);
                            }
                        }
                    }
                    // max_atom_len one below the longest atom must be refused by decoder and probe alike
                    if longest >= 1 {
                        let mut a2 = Allocator::new();
                        let r = deserialize_2026(&mut a2, &full, longest - 1, strict);
                        let p = serialized_length_serde_2026(&full, longest - 1, strict);
                        out.count("fault.max_atom_len_below_longest", 1);
                        if r.is_ok() || p.is_ok() {
                            out.fail(Violation::new(
                                "max-atom-len-enforced",
                                format!("longest atom {longest}, max_atom_len {}: decoder ok={}, probe ok={}", longest - 1, r.is_ok(), p.is_ok()),
                            ));
                            return fin(out, fp);
                        }
                    }
                }
                // --- reader session
                {
                    let mut sched = rsched.clone();
                    if let Some((at, k)) = sched.hard {
                        sched.hard = Some((at % (full.len() as u64 + 2), k));
                    }
                    let mut rd = SimReader::new(&full, &sched);
                    let mut a2 = Allocator::new();
                    let r = deserialize_2026_from_stream(&mut a2, &mut rd, 1 << 22, true);
                    out.evals += 1;
                    out.count("fault.reader_short", rd.stats.short);
                    out.count("fault.reader_eintr", rd.stats.intr);
                    out.count("fault.reader_eof_fired", rd.stats.eof_fired);
                    out.count("fault.reader_err_fired", rd.stats.err_fired);
                    out.count("sim.bytes_read", rd.stats.bytes);
                    let faulted = matches!(sched.hard, Some((at, _)) if (at as usize) < blob.len());
                    match (r, faulted) {
                        (Ok(_), true) => {
                            out.fail(Violation::new("reader-fault-fails", format!("stream faulted at {:?} inside the {}-byte blob but decoding succeeded", sched.hard, blob.len())));
                            return fin(out, fp);
                        }
                        (Err(_), true) => {}
                        (Err(e), false) => {
                            out.fail(Violation::new("benign-reader-transparent", format!("valid blob through a reader with short reads / EINTR fails with {}", err_name(&e))));
                            return fin(out, fp);
                        }
                        (Ok(n2), false) => {
                            let same = Sx::from_alloc(&a2, n2, 64_000_000).map(|t| t.same_tree(tree)).unwrap_or(false);
                            if !same || rd.consumed() != blob.len() || rd.stats.max_requested > blob.len() as u64 {
                                out.fail(Violation::new(
                                    "benign-reader-transparent",
                                    format!("through the simulated reader: same tree {same}, consumed {} of {}, highest offset requested {}", rd.consumed(), blob.len(), rd.stats.max_requested),
                                ));
                                return fin(out, fp);
                            }
                        }
                    }
                }
                // --- the older decoders refuse anything that starts with the magic prefix
                for (name, ok) in [
                    ("node_from_bytes", node_from_bytes(&mut Allocator::new(), &full).is_ok()),
                    ("node_from_bytes_backrefs", node_from_bytes_backrefs(&mut Allocator::new(), &full).is_ok()),
                    ("node_from_bytes_backrefs_old", node_from_bytes_backrefs_old(&mut Allocator::new(), &full).is_ok()),
                ] {
                    if ok {
                        out.fail(Violation::new("legacy-decoders-reject-magic", format!("{name} accepted a blob that starts with the 2026 magic prefix")).with("fn", name));
                        return fin(out, fp);
                    }
                }
                out.nontrivial = tree.nodes.len() >= 3;
                fin(out, fp)
            }
            Case20::Structured { body, expect, overlong, longest, trailing } => {
                let mut blob = SERDE_2026_MAGIC_PREFIX.to_vec();
                blob.extend_from_slice(body);
                let blen = blob.len() as u64;
                let mut full = blob.clone();
                full.extend_from_slice(trailing);
                fp.bytes(&full);
                let max = (*longest as usize).max(1);
                out.count(if *overlong { "probe.structured_overlong" } else { "probe.structured_minimal" }, 1);
                for strict in [true, false] {
                    let should_accept = !(strict && *overlong);
                    let mut a2 = Allocator::new();
                    let mut cur = Cursor::new(full.as_slice());
                    let r = deserialize_2026_from_stream(&mut a2, &mut cur, max, strict);
                    let p = serialized_length_serde_2026(&full, max, strict);
                    out.evals += 2;
                    match (&r, should_accept) {
                        (Ok(n2), true) => {
                            let same = Sx::from_alloc(&a2, *n2, 4_000_000).map(|t| t.same_tree(expect)).unwrap_or(false);
                            if !same || cur.position() != blen {
                                out.fail(
                                    Violation::new("structured-decodes-to-reference", format!("blob {} strict={strict}: decoded tree equals the reference stack machine's: {same}; consumed {} of {blen}", hex_short(&blob), cur.position()))
                                        .with("strict", &strict.to_string()),
                                );
                                return fin(out, fp);
                            }
                            match &p {
                                Ok(l) if *l == blen => {}
                                other => {
                                    out.fail(
                                        Violation::new("probe-equals-consumed", format!("blob {} ({} trailing bytes) strict={strict}: decoder consumed {blen} bytes, probe says {:?}", hex_short(&blob), trailing.len(), other.as_ref().map_err(|e| err_name(e))))
                                            .with("strict", &strict.to_string()),
                                    );
                                    return fin(out, fp);
                                }
                            }
                        }
                        (Err(e), true) => {
                            out.fail(
                                Violation::new("structured-decodes-to-reference", format!("blob {} strict={strict} max_atom_len={max}: a body that follows the format description is rejected: {}", hex_short(&blob), err_name(e)))
                                    .with("strict", &strict.to_string()),
                            );
                            return fin(out, fp);
                        }
                        (Ok(_), false) => {
                            out.fail(Violation::new("strict-rejects-overlong", format!("blob {} contains an over-long varint but strict decoding accepted it", hex_short(&blob))));
                            return fin(out, fp);
                        }
                        (Err(_), false) => {
                            if p.is_ok() {
                                out.fail(Violation::new("strict-rejects-overlong", format!("blob {}: strict decoder rejects the over-long varint but the strict probe accepts", hex_short(&blob))));
                                return fin(out, fp);
                            }
                        }
                    }
                    // one byte less of max_atom_len must refuse a blob whose longest table atom is `longest`
                    if *longest >= 1 && should_accept {
                        let mut a3 = Allocator::new();
                        if deserialize_2026(&mut a3, &full, *longest as usize - 1, strict).is_ok() || serialized_length_serde_2026(&full, *longest as usize - 1, strict).is_ok() {
                            out.fail(Violation::new("max-atom-len-enforced", format!("blob {}: table atom of {longest} bytes accepted with max_atom_len {}", hex_short(&blob), longest - 1)));
                            return fin(out, fp);
                        }
                    }
                }
                for (name, ok) in [
                    ("node_from_bytes", node_from_bytes(&mut Allocator::new(), &full).is_ok()),
                    ("node_from_bytes_backrefs", node_from_bytes_backrefs(&mut Allocator::new(), &full).is_ok()),
                    ("node_from_bytes_backrefs_old", node_from_bytes_backrefs_old(&mut Allocator::new(), &full).is_ok()),
                ] {
                    if ok {
                        out.fail(Violation::new("legacy-decoders-reject-magic", format!("{name} accepted {}", hex_short(&full))).with("fn", name));
                        return fin(out, fp);
                    }
                }
                out.nontrivial = expect.nodes.len() >= 2;
                fin(out, fp)
            }
            Case20::Bytes { body, max_atom_len, rsched } => {
                let mut blob = SERDE_2026_MAGIC_PREFIX.to_vec();
                blob.extend_from_slice(body);
                fp.bytes(&blob);
                fp.u64(*max_atom_len);
                let max = (*max_atom_len).min(1 << 22) as usize;
                let mem_bound = max + MEM_PER_BYTE * blob.len() + MEM_SLACK;
                let mut results = Vec::new();
                for strict in [true, false] {
                    let ms = MemScope::start();
                    let mut a2 = Allocator::new();
                    let mut cur = Cursor::new(blob.as_slice());
                    let r = deserialize_2026_from_stream(&mut a2, &mut cur, max, strict);
                    let peak = ms.peak();
                    out.evals += 1;
                    if peak > mem_bound {
                        out.fail(Violation::new("no-over-allocation", format!("decoder allocated a peak of {peak} bytes for a {}-byte blob with max_atom_len {max} (bound {mem_bound})", blob.len())));
                        return fin(out, fp);
                    }
                    let ms = MemScope::start();
                    let p = serialized_length_serde_2026(&blob, max, strict);
                    if ms.peak() > MEM_SLACK {
                        out.fail(Violation::new("no-over-allocation", format!("length probe allocated {} bytes", ms.peak())));
                        return fin(out, fp);
                    }
                    out.evals += 1;
                    if let Ok(n2) = &r {
                        out.count("probe.accepted_inputs", 1);
                        match &p {
                            Ok(l) if *l == cur.position() => {}
                            other => {
                                out.fail(
                                    Violation::new(
                                        "probe-equals-consumed",
                                        format!("blob {} strict={strict} max={max}: decoder consumed {} bytes, probe says {:?}", hex_short(&blob), cur.position(), other.as_ref().map_err(|e| err_name(e))),
                                    )
                                    .with("strict", &strict.to_string()),
                                );
                                return fin(out, fp);
                            }
                        }
                        // body entry point agrees
                        let mut a3 = Allocator::new();
                        let mut c3 = Cursor::new(body.as_slice());
                        let r3 = deserialize_2026_body_from_stream(&mut a3, &mut c3, max, strict);
                        let same = match r3 {
                            Ok(n3) => Sx::from_alloc(&a3, n3, 64_000_000).zip(Sx::from_alloc(&a2, *n2, 64_000_000)).map(|(x, y)| x.same_tree(&y)).unwrap_or(false),
                            Err(_) => false,
                        };
                        if !same || c3.position() + 6 != cur.position() {
                            out.fail(Violation::new("body-decoder-agrees", format!("blob {}: body decoder disagrees with the prefixed decoder", hex_short(&blob))));
                            return fin(out, fp);
                        }
                        // whatever strict accepts, lenient accepts identically
                        results.push((strict, true, cur.position()));
                        // through the simulated reader (benign faults only)
                        let mut rd = SimReader::new(&blob, rsched);
                        let mut a4 = Allocator::new();
                        let r4 = deserialize_2026_from_stream(&mut a4, &mut rd, max, strict);
                        out.evals += 1;
                        out.count("fault.reader_short", rd.stats.short);
                        out.count("fault.reader_eintr", rd.stats.intr);
                        out.count("sim.bytes_read", rd.stats.bytes);
                        let same4 = match r4 {
                            Ok(n4) => Sx::from_alloc(&a4, n4, 64_000_000).zip(Sx::from_alloc(&a2, *n2, 64_000_000)).map(|(x, y)| x.same_tree(&y)).unwrap_or(false),
                            Err(_) => false,
                        };
                        if !same4 || rd.consumed() as u64 != cur.position() || rd.stats.max_requested > cur.position() {
                            out.fail(Violation::new(
                                "benign-reader-transparent",
                                format!("blob {}: through the simulated reader: same {same4}, consumed {} vs {}, highest offset requested {}", hex_short(&blob), rd.consumed(), cur.position(), rd.stats.max_requested),
                            ));
                            return fin(out, fp);
                        }
                    } else {
                        out.count("probe.rejected_inputs", 1);
                        results.push((strict, false, 0));
                        // rejected contiguously => rejected through the reader as well
                        let mut rd = SimReader::new(&blob, rsched);
                        let mut a4 = Allocator::new();
                        if deserialize_2026_from_stream(&mut a4, &mut rd, max, strict).is_ok() {
                            out.fail(Violation::new("stream-same-acceptance", format!("blob {} rejected contiguously but accepted through the simulated reader", hex_short(&blob))));
                            return fin(out, fp);
                        }
                    }
                }
                // strict acceptance implies lenient acceptance with the same length
                if results[0].1 && (!results[1].1 || results[0].2 != results[1].2) {
                    out.fail(Violation::new("strict-implies-lenient", format!("blob {} accepted in strict mode but lenient mode disagrees", hex_short(&blob))));
                    return fin(out, fp);
                }
                for (name, ok) in [
                    ("node_from_bytes", node_from_bytes(&mut Allocator::new(), &blob).is_ok()),
                    ("node_from_bytes_backrefs", node_from_bytes_backrefs(&mut Allocator::new(), &blob).is_ok()),
                    ("node_from_bytes_backrefs_old", node_from_bytes_backrefs_old(&mut Allocator::new(), &blob).is_ok()),
                ] {
                    if ok {
                        out.fail(Violation::new("legacy-decoders-reject-magic", format!("{name} accepted {}", hex_short(&blob))).with("fn", name));
                        return fin(out, fp);
                    }
                }
                out.nontrivial = body.len() >= 2;
                fin(out, fp)
            }
        }
    }

    fn shrink(case: &Case20) -> Vec<Case20> {
        match case {
            Case20::RoundTrip {
                tree,
                level,
                wsched,
                rsched,
                trailing,
                repr,
            } => {
                let mut v: Vec<Case20> = tree
                    .shrink_candidates()
                    .into_iter()
                    .map(|t| Case20::RoundTrip {
                        tree: t,
                        level: *level,
                        wsched: wsched.clone(),
                        rsched: rsched.clone(),
                        trailing: trailing.clone(),
                        repr: *repr,
                    })
                    .collect();
                v.push(Case20::RoundTrip {
                    tree: tree.clone(),
                    level: *level,
                    wsched: IoSchedule::clean(),
                    rsched: IoSchedule::clean(),
                    trailing: vec![],
                    repr: *repr,
                });
                if *repr != 0 {
                    v.push(Case20::RoundTrip {
                        tree: tree.clone(),
                        level: *level,
                        wsched: wsched.clone(),
                        rsched: rsched.clone(),
                        trailing: trailing.clone(),
                        repr: 0,
                    });
                }
                v
            }
            Case20::Structured { .. } => vec![],
            Case20::Bytes { body, max_atom_len, rsched } => {
                let mut v = Vec::new();
                v.push(Case20::Bytes {
                    body: body.clone(),
                    max_atom_len: *max_atom_len,
                    rsched: IoSchedule::clean(),
                });
                for i in 0..body.len().min(64) {
                    let mut b = body.clone();
                    b.remove(i);
                    v.push(Case20::Bytes {
                        body: b,
                        max_atom_len: *max_atom_len,
                        rsched: rsched.clone(),
                    });
                }
                v
            }
        }
    }

    fn sample(case: &Case20) -> Value {
        match case {
            Case20::RoundTrip { tree, level, wsched, rsched, trailing, repr } => {
                json!({"kind": "roundtrip", "tree": tree.brief(120), "level": level, "atom_representation_plan": *repr != 0, "writer_hard_fault": format!("{:?}", wsched.hard), "reader_hard_fault": format!("{:?}", rsched.hard), "trailing_bytes": trailing.len()})
            }
            Case20::Structured { body, expect, overlong, trailing, .. } => json!({"kind": "structured", "blob": format!("fdff32303236 {}", hex_short(body)), "reference_tree": expect.brief(100), "overlong_varints": overlong, "trailing_bytes": trailing.len()}),
            Case20::Bytes { body, max_atom_len, .. } => json!({"kind": "bytes", "blob": format!("fdff32303236 {}", hex_short(body)), "max_atom_len": max_atom_len}),
        }
    }
    fn rule() -> &'static str {
        "three case kinds. Structured (1/4): a body written by the harness from docs/serde-2026.md - groups in any order and form, unreferenced atoms, right-first conses, pair back-references, optional trailing bytes, 1/5 with over-long varints - with the tree the reference stack machine builds from it: strict and lenient decoders must give that tree and consume exactly the blob, the probe must equal the blob length, strict decoder and strict probe must reject over-long varints, max_atom_len one below the longest table atom must refuse. RoundTrip: seeded tree, in half of the cases built with a per-atom representation plan (inline, own heap buffer, substring view, number constructor - so equal atoms, nil included, can exist in several forms), level in {0,1,7,u32::MAX}; serialize_2026 / _to_stream through a writer with short writes, EINTR and (1/3) a hard error at an offset; deserialize strict and lenient with max_atom_len in {longest-1 (must fail), longest, 2^22}, with optional trailing bytes; length probe; a reader session with short reads, EINTR and (1/3) EOF or an error at an offset; legacy decoders must reject the blob. Bytes: magic prefix + body, where body is (first 65,793 runs) every string of length <=2, then a valid body under storage-fault mutations or random bytes, max_atom_len in {0,1,longest-1,longest,2^16,2^20,2^22}; strict and lenient decoders, body decoder, probe and a reader session must return, stay within the allocation bound, and agree. Non-trivial: tree of >=3 nodes / body of >=2 bytes."
    }
    fn default_runs(tier: Tier) -> u64 {
        match tier {
            Tier::Quick => 6_000_000,
            Tier::Thorough => 3_000_000_000,
        }
    }
    fn real_components() -> &'static [&'static str] {
        &["serde_2026::serialize_2026 / _to_stream / _body_to_stream", "serde_2026::deserialize_2026 / _from_stream / _body_from_stream", "serde_2026::serialized_length_serde_2026", "varint codec, intern_tree", "serde::node_from_bytes / node_from_bytes_backrefs / _old"]
    }
    fn stub_components() -> &'static [&'static str] {
        &["SimReader / SimWriter", "allocation monitor"]
    }
    fn assumptions() -> &'static [&'static str] {
        &[
            "max_atom_len above 2^22 is not explored: it is the caller's documented bound on pre-allocation, and usize::MAX lets a 12-byte body request 2^55 bytes (abort)",
            "over-allocation bound: peak <= max_atom_len + 256*len + 2 MiB",
        ]
    }
    fn reach_probes() -> &'static [&'static str] {
        &["fault.writer_short", "fault.writer_err_fired", "fault.reader_short", "fault.reader_eintr", "fault.reader_eof_fired", "fault.reader_err_fired", "fault.max_atom_len_below_longest", "probe.accepted_inputs", "probe.rejected_inputs"]
    }
}

#[allow(dead_code)]
fn _unused(_: EvalErr, _: TokKind) {}
