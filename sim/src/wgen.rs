//! Seeded workload generators: atoms, trees, byte-string mutations.

use crate::rng::Rng;
use crate::sx::{Sx, SxNode};

#[derive(Clone, Debug)]
pub struct TreeCfg {
    pub max_leaves: usize,
    /// percent chance that a combined sub-tree stays available for re-use (sharing)
    pub share_pct: u64,
    /// allow atoms at the 0x2000 prefix boundary and KiB-sized blobs
    pub medium_atoms: bool,
    /// allow atoms at the 0x100000 prefix boundary
    pub huge_atoms: bool,
    /// percent of atoms drawn from a small per-tree pool (equal atoms in different nodes)
    pub pool_pct: u64,
    /// the tree is a long list in which one big item occurs at both ends (and maybe in
    /// between): back-reference paths of around and beyond 63 bytes (two-byte length prefix)
    pub far_repeat: bool,
    /// percent of atoms that are a near-duplicate of an earlier atom of the same tree: one byte
    /// altered (last / first / anywhere), or one byte longer or shorter
    pub near_dup_pct: u64,
}

impl TreeCfg {
    pub fn small() -> TreeCfg {
        TreeCfg {
            max_leaves: 12,
            share_pct: 30,
            medium_atoms: false,
            huge_atoms: false,
            pool_pct: 40,
            far_repeat: false,
            near_dup_pct: 5,
        }
    }
    /// swarm: per-run random configuration
    pub fn swarm(rng: &mut Rng, thorough: bool) -> TreeCfg {
        let max_leaves = match rng.below(10) {
            0..=3 => 1 + rng.usize(8),
            4..=7 => 1 + rng.usize(60),
            8 => 1 + rng.usize(300),
            _ => {
                if thorough {
                    1 + rng.usize(10_000)
                } else if rng.chance(1, 60) {
                    // rarely also in quick: enough leaves for > 8192 distinct nodes and for
                    // back-reference paths longer than 63 bytes (deep spines)
                    600 + rng.usize(12_000)
                } else {
                    1 + rng.usize(300)
                }
            }
        };
        TreeCfg {
            max_leaves,
            share_pct: *rng.pick(&[0, 10, 30, 60, 90]),
            medium_atoms: rng.chance(1, 4),
            huge_atoms: (thorough && rng.chance(1, 40)) || rng.chance(1, 1500),
            pool_pct: *rng.pick(&[0, 20, 50, 80]),
            far_repeat: rng.chance(1, 40),
            near_dup_pct: *rng.pick(&[0, 0, 10, 30]),
        }
    }
}

pub fn gen_atom(rng: &mut Rng, cfg: &TreeCfg) -> Vec<u8> {
    let w: [u32; 12] = [
        6, // nil
        10, // 1 byte < 0x80
        5, // 1 byte >= 0x80
        8, // canonical small ints near boundaries
        5, // non-canonical (leading 0x00 / 0xff)
        8, // short random 2..8
        8, // 32 / 48 / 96 byte blobs
        4, // lengths at the 0x40 prefix boundary
        if cfg.medium_atoms { 3 } else { 0 }, // 0x2000 boundary
        if cfg.medium_atoms { 3 } else { 0 }, // 1..4 KiB
        if cfg.huge_atoms { 1 } else { 0 }, // 0x100000 boundary
        4, // medium random 9..40
    ];
    match rng.weighted(&w) {
        0 => vec![],
        1 => vec![rng.below(0x80) as u8],
        2 => vec![0x80 + rng.below(0x80) as u8],
        3 => {
            let base: i64 = *rng.pick(&[1i64 << 7, 1 << 15, 1 << 23, 1 << 26, 1 << 31, 1 << 8, 1 << 16, 1 << 24]);
            let v = (base + rng.below(5) as i64 - 2).max(0) as u64;
            let mut b = v.to_be_bytes().to_vec();
            while !b.is_empty() && b[0] == 0 {
                b.remove(0);
            }
            if !b.is_empty() && b[0] & 0x80 != 0 {
                b.insert(0, 0);
            }
            b
        }
        4 => {
            let n = 1 + rng.usize(4);
            let mut b = rng.bytes(n);
            let lead = if rng.bool() { 0x00 } else { 0xff };
            for _ in 0..1 + rng.usize(2) {
                b.insert(0, lead);
            }
            b
        }
        5 => {
            let n = 2 + rng.usize(7);
            rng.bytes(n)
        }
        6 => {
            // digest / key sizes and their neighbours
            let n = *rng.pick(&[32usize, 48, 96, 32, 20, 19, 21, 31, 33, 64]);
            rng.bytes(n)
        }
        7 => {
            let n = *rng.pick(&[0x3eusize, 0x3f, 0x40, 0x41]);
            rng.bytes(n)
        }
        8 => {
            let n = *rng.pick(&[0x1ffeusize, 0x1fff, 0x2000, 0x2001]);
            rng.bytes(n)
        }
        9 => {
            let n = 1024 + rng.usize(3072);
            rng.bytes(n)
        }
        10 => {
            let n = *rng.pick(&[0xfffffusize, 0x100000, 0x100001]);
            let mut v = vec![0u8; n];
            let seed = rng.bytes(64);
            for (i, x) in v.iter_mut().enumerate() {
                *x = seed[i % 64] ^ (i / 64) as u8;
            }
            v
        }
        _ => {
            let n = 9 + rng.usize(32);
            rng.bytes(n)
        }
    }
}

#[derive(Clone, Copy, Debug, PartialEq, Eq)]
enum Shape {
    Random,
    LeftSpine,
    RightSpine,
    Balanced,
}

/// (B x1 x2 .. xn B): n around and above 500 small items between two (or more) copies of an
/// item B whose serialization is around and above 68 bytes, so that the back-reference to B needs
/// a path of about n bits - around the 63/64-byte boundary of the path's length prefix
pub fn gen_far_repeat(rng: &mut Rng) -> Sx {
    let mut t = Sx {
        nodes: Vec::new(),
        root: 0,
    };
    let n = if rng.chance(1, 4) { 490 + rng.usize(40) } else { 400 + rng.usize(1200) };
    let make_big = |rng: &mut Rng, t: &mut Sx, content: &[Vec<u8>]| -> u32 {
        if content.len() == 1 {
            return t.push_atom(&content[0]);
        }
        let mut tail = t.push_atom(&[]);
        for c in content.iter().rev() {
            let a = t.push_atom(c);
            tail = t.push_pair(a, tail);
        }
        let _ = rng;
        tail
    };
    let content: Vec<Vec<u8>> = if rng.bool() {
        let len = *rng.pick(&[60usize, 64, 65, 66, 67, 68, 70, 100, 200]) + rng.usize(3);
        vec![rng.bytes(len)]
    } else {
        (0..2 + rng.usize(5)).map(|_| { let l = 8 + rng.usize(30); rng.bytes(l) }).collect()
    };
    let same_node = rng.bool();
    let first_big = make_big(rng, &mut t, &content);
    let mut positions = vec![rng.usize(6), n - 1 - rng.usize(6)];
    for _ in 0..rng.usize(3) {
        positions.push(rng.usize(n));
    }
    let pool: Vec<Vec<u8>> = (0..4).map(|_| { let l = rng.usize(4); rng.bytes(l) }).collect();
    let mut items: Vec<u32> = Vec::with_capacity(n);
    for i in 0..n {
        if positions.contains(&i) {
            let b = if same_node { first_big } else { make_big(rng, &mut t, &content) };
            items.push(b);
        } else {
            let a = if rng.chance(1, 2) { rng.pick(&pool).clone() } else { let l = rng.usize(4); rng.bytes(l) };
            items.push(t.push_atom(&a));
        }
    }
    let mut tail = if rng.chance(1, 5) { if same_node { first_big } else { make_big(rng, &mut t, &content) } } else { t.push_atom(&[]) };
    for it in items.into_iter().rev() {
        tail = t.push_pair(it, tail);
    }
    t.root = tail;
    t.compact()
}

fn rng_pick_clone(rng: &mut Rng, v: &[Vec<u8>]) -> Vec<u8> {
    v[rng.usize(v.len())].clone()
}

/// an atom that differs from `b` as little as possible
pub fn near_duplicate(rng: &mut Rng, mut b: Vec<u8>) -> Vec<u8> {
    if b.is_empty() {
        return vec![rng.below(256) as u8];
    }
    let n = b.len();
    match rng.below(10) {
        0..=4 => b[n - 1] ^= 1 << rng.below(8),
        5 => b[0] ^= 1 << rng.below(8),
        6..=7 => {
            let i = rng.usize(n);
            b[i] = b[i].wrapping_add(1 + rng.below(255) as u8);
        }
        8 => b.push(rng.below(256) as u8),
        _ => {
            b.pop();
        }
    }
    b
}

pub fn gen_tree(rng: &mut Rng, cfg: &TreeCfg) -> Sx {
    if cfg.far_repeat {
        return gen_far_repeat(rng);
    }
    let leaves = 1 + rng.usize(cfg.max_leaves.max(1));
    let shape = *rng.pick(&[Shape::Random, Shape::Random, Shape::LeftSpine, Shape::RightSpine, Shape::Balanced]);
    let pool: Vec<Vec<u8>> = (0..1 + rng.usize(4)).map(|_| gen_atom(rng, cfg)).collect();
    let mut t = Sx {
        nodes: Vec::new(),
        root: 0,
    };
    let mut forest: Vec<u32> = Vec::new();
    let mut total_bytes = 0usize;
    let mut recent: Vec<Vec<u8>> = Vec::new();
    for _ in 0..leaves {
        let a = if !recent.is_empty() && rng.below(100) < cfg.near_dup_pct {
            let base = rng_pick_clone(rng, &recent);
            near_duplicate(rng, base)
        } else if rng.below(100) < cfg.pool_pct {
            rng.pick(&pool).clone()
        } else {
            gen_atom(rng, cfg)
        };
        if a.len() <= 128 && recent.len() < 64 {
            recent.push(a.clone());
        }
        total_bytes += a.len();
        // keep the whole workload item bounded (~6 MiB of atom bytes)
        let a = if total_bytes > 6 << 20 { vec![1, 2, 3, 4, 5] } else { a };
        forest.push(t.push_atom(&a));
    }
    let mut shared: Vec<u32> = Vec::new();
    while forest.len() > 1 {
        let (i, j) = match shape {
            Shape::Random => {
                let i = rng.usize(forest.len() - 1);
                (i, i + 1)
            }
            Shape::LeftSpine => (0, 1),
            Shape::RightSpine => (forest.len() - 2, forest.len() - 1),
            Shape::Balanced => {
                let i = (rng.usize(forest.len() - 1)) & !1;
                let i = i.min(forest.len() - 2);
                (i, i + 1)
            }
        };
        let mut l = forest[i];
        let mut r = forest[j];
        // sharing: substitute a previously built sub-tree
        if !shared.is_empty() && rng.below(100) < cfg.share_pct {
            if rng.bool() {
                l = *rng.pick(&shared);
            } else {
                r = *rng.pick(&shared);
            }
        }
        let p = t.push_pair(l, r);
        if rng.below(100) < cfg.share_pct.max(5) {
            shared.push(p);
            if rng.chance(1, 3) {
                shared.push(l);
            }
        }
        forest[i] = p;
        forest.remove(j);
    }
    t.root = forest[0];
    t.compact()
}

/// trees that are likely to produce back-references: repeated big sub-trees
pub fn gen_sharing_tree(rng: &mut Rng, thorough: bool) -> Sx {
    let mut cfg = TreeCfg::swarm(rng, thorough);
    cfg.share_pct = cfg.share_pct.max(30);
    cfg.pool_pct = cfg.pool_pct.max(20);
    gen_tree(rng, &cfg)
}

// ---------------------------------------------------------------------------
// byte-string mutations (storage faults)

#[derive(Clone, Copy, Debug, PartialEq, Eq)]
pub enum Mutation {
    None,
    BitFlip,
    ByteSet,
    Truncate,
    DropByte,
    DupRange,
    Splice,
    Trailing,
    Random,
}

pub fn mutate_bytes(rng: &mut Rng, b: &[u8], boundaries: &[usize]) -> (Vec<u8>, Mutation) {
    let mut v = b.to_vec();
    let at = |rng: &mut Rng, len: usize| -> usize {
        if len == 0 {
            return 0;
        }
        if !boundaries.is_empty() && rng.chance(2, 3) {
            let p = *rng.pick(boundaries) as i64 + rng.below(3) as i64 - 1;
            p.clamp(0, len as i64 - 1) as usize
        } else {
            rng.usize(len)
        }
    };
    let m = match rng.below(20) {
        0..=3 => Mutation::None,
        4..=7 => Mutation::BitFlip,
        8..=9 => Mutation::ByteSet,
        10..=12 => Mutation::Truncate,
        13 => Mutation::DropByte,
        14 => Mutation::DupRange,
        15 => Mutation::Splice,
        16..=17 => Mutation::Trailing,
        _ => Mutation::Random,
    };
    match m {
        Mutation::None => {}
        Mutation::BitFlip => {
            if !v.is_empty() {
                let i = at(rng, v.len());
                v[i] ^= 1 << rng.below(8);
            }
        }
        Mutation::ByteSet => {
            if !v.is_empty() {
                let i = at(rng, v.len());
                v[i] = *rng.pick(&[0x00u8, 0x01, 0x7f, 0x80, 0x81, 0xbf, 0xc0, 0xdf, 0xe0, 0xf0, 0xf8, 0xfc, 0xfd, 0xfe, 0xff]);
            }
        }
        Mutation::Truncate => {
            let i = at(rng, v.len() + 1).min(v.len());
            v.truncate(i);
        }
        Mutation::DropByte => {
            if !v.is_empty() {
                let i = at(rng, v.len());
                v.remove(i);
            }
        }
        Mutation::DupRange => {
            if !v.is_empty() {
                let i = at(rng, v.len());
                let n = 1 + rng.usize((v.len() - i).min(16));
                let chunk = v[i..i + n].to_vec();
                let j = at(rng, v.len());
                for (k, x) in chunk.into_iter().enumerate() {
                    v.insert(j + k, x);
                }
            }
        }
        Mutation::Splice => {
            let i = at(rng, v.len() + 1).min(v.len());
            let tail = v.split_off(i);
            let n = 1 + rng.usize(6);
            v.extend_from_slice(&rng.bytes(n));
            v.extend_from_slice(&tail);
        }
        Mutation::Trailing => {
            let n = 1 + rng.usize(9);
            v.extend_from_slice(&rng.bytes(n));
        }
        Mutation::Random => {
            let n = rng.usize(24);
            v = rng.bytes(n);
            // bias towards structure bytes
            for x in v.iter_mut() {
                if rng.chance(1, 3) {
                    *x = *rng.pick(&[0xffu8, 0xfe, 0x80, 0x01, 0x81, 0xc0, 0xfd]);
                }
            }
        }
    }
    (v, m)
}

/// replace random atoms of a tree with fresh ones (used for alternative parts)
pub fn perturb_tree(rng: &mut Rng, t: &Sx, cfg: &TreeCfg) -> Sx {
    let mut c = t.clone();
    let n = c.nodes.len();
    for _ in 0..1 + rng.usize(3) {
        let i = rng.usize(n);
        if let SxNode::A(_) = c.nodes[i] {
            c.nodes[i] = SxNode::A(gen_atom(rng, cfg));
        }
    }
    c.compact()
}
