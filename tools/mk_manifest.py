#!/usr/bin/env python3
"""Regenerates /verif/MANIFEST.json from the table below (single source of truth)."""
import json, os, subprocess, sys
HERE = os.path.dirname(os.path.dirname(os.path.abspath(__file__)))

BUILT = {
 # id: (level, design_ref, technique, level text, level note)
 "C12": ("exploration", "DESIGN.md §5 C12",
   "seeded simulation of allocator call histories (incl. full / transparent / value-preserving rollbacks) against a three-integer reference model, checked after every call",
   "Seeded search over histories of public Allocator calls with rollbacks; after every call the three reported counters are compared with an executable reference model. Sampling, not proof; the history/rollback dimension is what unit tests never vary.",
   "Trusts the 60-line reference model; nodes created after a checkpoint are never used after a restore to it; one open known finding (substr of an inline atom) is applied to the model as its documented delta."),
 "C13": ("exploration", "DESIGN.md §5 C13",
   "fault injection of allocator caps (heap limit, atom/pair caps via ghost pre-load) placed from a reference trajectory, over seeded call histories; failed-call atomicity by read-back",
   "The heap limit and the 62.5M atom/pair caps are armed at a chosen distance from where the same history would take the counters; every call must fail iff the model says a cap would be exceeded, with the right error, atomically.",
   "Cap prediction starts from the allocator's own counters before each call (C12 checks those); heap limits below 1 (already exceeded by a fresh allocator) are not explored."),
 "C14": ("exploration", "DESIGN.md §5 C14",
   "seeded simulation of allocator histories with rollbacks and failing calls; every live node read back through all accessors after every call; exhaustive short byte strings in three representations",
   "Every live handle is read back (atom, atom_len, node, sexp, small_number, number, atom_eq) after every call of a history that includes restores to checkpoints taken after the node's creation and calls that fail at a heap limit.",
   "Trusts the handle table and the from-definition integer encoders in sim/src/model.rs; byte strings of length 3 are sampled (1/64) in thorough, not enumerated."),
 "C29": ("fault_enumeration", "DESIGN.md §5 C29",
   "enumeration of the 'output space exhausted after exactly L bytes' fault over every L (or every token boundary +-2) per seeded tree, plus LimitedWriter over a short-writing/EINTR stream",
   "For each generated tree the size limit is enumerated exhaustively (len <= 4096) or around every token boundary; the result must be the full serialization or exactly OutOfMemory.",
   "Exhaustive over the fault position per case, sampled over trees; reference serializer/tokeniser in sim/src/model.rs is trusted."),
}

NA = {
 "C01": "Pure function of (program, environment, budget): no schedule, fault, stream or history to simulate; the only entropy it consults (add/sub accumulator split) is covered by C03; and its oracle, the Python clvm package, is not installed and cannot be fetched offline.",
 "C05": "Compares three differently-compiled builds of pure code; the deciding method is cross-build differential testing, which has no fault, entropy, stream or history dimension for a simulator to own.",
 "C06": "div/divmod/mod/modpow read only their argument bytes and flags and allocate the result after computing it; a pure function of its input, decided by input enumeration, not simulation.",
 "C07": "A relation between runs under two flag sets; flags are configuration inputs, no state, stream, entropy or fault is involved.",
 "C09": "Closed-form arithmetic on opcode bytes and argument lengths; pure function of its input.",
 "C10": "Closed-form cost formulas over argument sizes; pure function of its input.",
 "C11": "A relation between two configurations of pure operators; nothing to inject or schedule.",
 "C15": "Serializer, decoder and length functions are pure functions of a tree or byte string (Cursor-only); the one stream-facing piece, the size-limited writer, is C29's subject.",
 "C18": "All three functions take Cursor<&[u8]> / &[u8]: no stream behaviour can be injected and no entropy is read; pure function of the byte string.",
 "C21": "A bijection on 56-bit integers decided by enumeration; its stream use is exercised inside C20 sessions.",
 "C22": "Seven pure implementations of one recursive definition; agreement is input enumeration (two of them serve as oracles inside C16).",
 "C23": "An inequality between two deterministic costs; pure function of the tree and flags.",
 "C24": "intern_tree reads no entropy that reaches its output (its std HashMaps are never iterated) and keeps no state across calls; pure function of the tree.",
 "C26": "Byte-for-byte wrapper of pure functions; the only concurrency (GIL released around run_program) operates on a call-private allocator, and CPython thread scheduling is not something this simulator could own.",
 "C28": "Pure-Python codecs and curry helpers are pure functions of their input; the property is stated over byte strings, not over stream behaviour.",
 "C30": "Two dispatch tables over the same pure operators; decided by input enumeration.",
 "C32": "Pure cryptographic functions; no independent BLS/secp/keccak implementation exists offline to compare against in any case.",
}

PENDING = ["C02","C03","C04","C08","C16","C17","C19","C20","C25","C27","C31"]

def main():
    hooks_commits = subprocess.run(["git","-C","/repo","log","--format=%h %s","--grep=^verif-hooks"],capture_output=True,text=True).stdout.strip().splitlines()
    checks=[]
    for pid,(level,ref,tech,text,note) in sorted(BUILT.items()):
        checks.append({
            "property_id": pid,
            "quick_cmd": f"./check {pid} quick",
            "thorough_cmd": f"./check {pid} thorough",
            "evidence_file": f"/verif/evidence/{pid}.json",
            "replay_cmd_template": f"./check {pid} --replay {{path}}",
            "engine": "pysim" if pid=="C27" else "clvmsim",
            "level_claimed": {"category": level, "text": text, "design_ref": ref},
            "level_note": note,
            "technique": "deterministic simulation with fault injection: " + tech,
        })
    na=[{"property_id":k,"reason":v} for k,v in sorted(NA.items())]
    for p in PENDING:
        if p not in BUILT:
            na.append({"property_id":p,"reason":"Claimed in DESIGN.md (§5) but its check is still under construction at this commit; not claimed until the check exists."})
    na.sort(key=lambda x:x["property_id"])
    m={
      "version":1,
      "setup_cmd":"./check setup",
      "hooks":{
        "guard":"verif-hooks",
        "enable":"cargo feature `verif-hooks` of crate clvmr, enabled by /verif/sim/Cargo.toml: clvmr = { path = \"/repo\", features = [\"verif-hooks\"] } (the wheel cdylib used by C27 is built without it)",
        "baseline_off_cmd":"cd /repo && cargo nextest run --workspace --no-fail-fast --tool-config-file pb:/w/lib/nextest.toml --profile pb --test-threads 8 --offline || cargo test --workspace --no-fail-fast --offline",
        "source_commits":[l.split()[0] for l in hooks_commits][::-1],
        "add_only":True,
      },
      "engines":[
        {"name":"clvmsim","path":"/verif/sim","serves_properties":[p for p in sorted(BUILT) if p!="C27"],"kind_free_text":"single-process seeded discrete-step simulator (Rust): PRNG-owned workload, entropy, stream faults, resource-cap faults and rollback histories; worker processes for crash isolation; explicit replay files and minimisation"},
        {"name":"pysim","path":"/verif/pysim","serves_properties":["C27"] if "C27" in BUILT else [],"kind_free_text":"seeded Python driver that owns object lifetimes / address reuse around the wheel's clvm_tree_to_lazy_node"},
      ],
      "checks":checks,
      "not_applicable":na,
      "notes":"All checks go through ./check (exit 0 held / 1 VIOLATION line / 2 harness error). Known findings: /verif/known_findings.txt (read-only at run time). Default VERIF_SEED=20260921.",
    }
    json.dump(m,open(os.path.join(HERE,"MANIFEST.json"),"w"),indent=1)
    print("wrote MANIFEST.json:",len(checks),"checks,",len(na),"not_applicable")
main()
