#!/usr/bin/env python3
"""Regenerates /verif/MANIFEST.json from the table below (single source of truth)."""
import json, os, subprocess, sys
HERE = os.path.dirname(os.path.dirname(os.path.abspath(__file__)))

BUILT = {
 # id: (level, design_ref, technique, level text, level note)
 "C12": ("exploration", "DESIGN.md §5 C12",
   "seeded simulation of allocator call histories (incl. full / transparent / value-preserving rollbacks) against a three-integer reference model, checked after every call",
   "Seeded search over histories of public Allocator calls with rollbacks; after every call the three reported counters are compared with an executable reference model. Sampling, not proof; the history/rollback dimension is what unit tests never vary.",
   "Trusts the 60-line reference model; nodes created after a checkpoint are never used after a restore to it; one open known finding (substr of an inline atom) is applied to the model as its documented delta."),
 "C13": ("exploration", "DESIGN.md §5 C13",
   "fault injection of allocator caps (heap limit, atom/pair caps via ghost pre-load) placed from a reference trajectory, over seeded call histories; failed-call atomicity by read-back",
   "The heap limit and the 62.5M atom/pair caps are armed at a chosen distance from where the same history would take the counters; every call must fail iff the model says a cap would be exceeded, with the right error, atomically.",
   "Cap prediction starts from the allocator's own counters before each call (C12 checks those); heap limits below 1 (already exceeded by a fresh allocator) are not explored."),
 "C14": ("exploration", "DESIGN.md §5 C14",
   "seeded simulation of allocator histories with rollbacks and failing calls; every live node read back through all accessors after every call; exhaustive short byte strings in three representations",
   "Every live handle is read back (atom, atom_len, node, sexp, small_number, number, atom_eq) after every call of a history that includes restores to checkpoints taken after the node's creation and calls that fail at a heap limit.",
   "Trusts the handle table and the from-definition integer encoders in sim/src/model.rs; byte strings of length 3 are sampled (1/64) in thorough, not enumerated."),
 "C29": ("fault_enumeration", "DESIGN.md §5 C29",
   "enumeration of the 'output space exhausted after exactly L bytes' fault over every L (or every token boundary +-2) per seeded tree, plus LimitedWriter over a short-writing/EINTR stream",
   "For each generated tree the size limit is enumerated exhaustively (len <= 4096) or around every token boundary; the result must be the full serialization or exactly OutOfMemory.",
   "Exhaustive over the fault position per case, sampled over trees; reference serializer/tokeniser in sim/src/model.rs is trusted."),
}

BUILT.update({
 "C02": ("fault_enumeration", "DESIGN.md §5 C02",
   "enumeration of the budget-exhaustion fault over every budget (cost <= 4096) or around every cost checkpoint of the probed reference trajectory, per seeded program",
   "For each generated program the budget is enumerated exhaustively (cost <= 4096) or at c-1,c,c+1 around the cost checkpoints: soundness, same result, upward closure, cost-exceeded-only below the threshold, threshold = cost unless a cost-exempt guard was entered, 0 = unlimited.",
   "Exhaustive over the fault position per case only; programs come from the seeded generator (no loops, cost <= ~2e8)."),
 "C03": ("exploration", "DESIGN.md §5 C03",
   "seeded simulation of a long-lived allocator's history (junk, earlier runs aborted by injected budget faults, restores, validated-point cache) + per-atom re-encoding + simulator-owned entropy for the add/sub accumulator split, against a fresh-state reference run",
   "The target run is repeated after arbitrary allocator histories, with every atom re-encoded and under several entropy streams, and must equal the run on a fresh allocator with zero entropy.",
   "Reference is the real code in its trivial configuration (common-mode bugs invisible); runs that hit an allocator limit are excluded as the statement says."),
 "C04": ("exploration", "DESIGN.md §5 C04",
   "paired real runs with and without ENABLE_GC under budget / heap-limit / atom-cap / pair-cap faults placed from the probed reference trajectory (the caps compare the whole counter trajectory); GC outcomes measured by probe",
   "Outcome, error message and allocator counters must be identical with and without ENABLE_GC, also when a budget or allocator cap strikes while GC checkpoints are pending.",
   "GC decisions are never forced; reach of each restore outcome is measured per batch; common-mode bugs invisible."),
 "C08": ("exploration", "DESIGN.md §5 C08",
   "paired real runs on ChiaDialect and on a harness-side extension-unaware Dialect, with budget and heap-limit faults placed from the aware run's trajectory; guards calibrated from probes",
   "Whenever the aware dialect succeeds, the unaware one must succeed with equal cost, tree and allocator counts (nested / malformed / wrong-cost guards, 4-byte secp opcodes).",
   "secp opcodes are exercised with invalid signatures only; both dialects share the same flags."),
 "C16": ("exploration", "DESIGN.md §5 C16",
   "three decoder clients on one byte string; parse_triples driven through a fault-injecting Read (short reads, EINTR, EOF / error at an offset); storage-fault mutations; allocation monitor; all strings of length <= 2 exhaustively",
   "Totality, equal acceptance, equal consumption, same tree and hashes across node_from_bytes / tree_hash_from_stream / parse_triples, transparency of benign stream faults, failure on faults before the end, no over-read, canonical judgement.",
   "Over-allocation bound 256*len + 2 MiB; reference decoder in sim/src/model.rs trusted."),
 "C17": ("exploration", "DESIGN.md §5 C17",
   "simulator-owned hash salts (K >= 4 assignments per tree, incl. colliding low bits) + repeated runs + short-writing / EINTR writer; independent reference decoder",
   "Bytes identical under every salt and run, decodable by the real and the reference decoder to the same tree, canonical, never longer than classic, stable under re-serialization.",
   "std HashMap SipHash keys cannot be seeded (a leak would show as a run-to-run difference); trees up to 700 / 6000 nodes."),
 "C19": ("exploration", "DESIGN.md §5 C19",
   "seeded add/undo histories of the incremental serializer (multi-level undo, token reuse, undo after completion, divergent re-adds) under K >= 4 assignments of hash and tree-cache salts, against a history model and an independent decoder",
   "Undo restores the exact bytes, adds only append, completion flag matches the model, completed output decodes to the assembled tree, byte trajectory independent of the salts.",
   "Two open known findings (undo leaves tree-cache links behind; the same sentinel-containing node added twice) are matched by narrow classes; each part contains the sentinel at most once."),
 "C20": ("exploration", "DESIGN.md §5 C20",
   "serde_2026 writer and reader sessions through fault-injecting Write / Read seams (short transfers, EINTR, hard error / EOF at an offset), max_atom_len as an injected bound, allocation monitor, storage-fault mutations, all bodies of length <= 2",
   "Round trip in strict and lenient mode, probe = length = bytes consumed, stream faults transparent or failing cleanly with a working retry, totality on arbitrary bytes within the allocation bound, legacy decoders reject the magic prefix.",
   "max_atom_len above 2^22 not explored (documented caller contract)."),
 "C25": ("exploration", "DESIGN.md §5 C25",
   "fault injection of budget exhaustion and heap / atom / pair caps at arbitrary trajectory points, per-atom re-encoding, arbitrary flag words; every operator function called directly near each cap; worker-process isolation for aborts, stack overflows and hangs",
   "run_program and all 47 operator functions must return (no panic / abort / overflow / hang) and never report InternalError; the allocator recovers after a faulted run.",
   "Finite budgets for programs (random trees may loop); the 20M-entry stack limit is out of reach."),
 "C31": ("exploration", "DESIGN.md §5 C31",
   "guard-enter / guard-exit probes over seeded guarded programs (nesting, both cost models, measured and deliberately wrong costs), preceded by runs that die inside a guard on the same allocator, heap-limited allocators; LIMIT_SOFTFORK depth chains",
   "Per completed guard: counters restored exactly, declared cost consumed exactly unless cost-exempt (only under NEW_COST_MODEL), value nil; depth 21 fails with the depth error under LIMIT_SOFTFORK and 20 succeeds.",
   "Trusts the probe placement (hooks are observe-only)."),
})

BUILT.update({
 "C27": ("exploration", "DESIGN.md §5 C27",
   "seeded simulation of Python object lifetimes and address reuse around clvm_tree_to_lazy_node: a harness storage object decides per .pair call (from the run PRNG, recorded for replay) between cached and fresh children, garbage collections and same-size-class allocation churn; every shipped CLVMStorage wrapper; failures confirmed in fresh interpreters",
   "The converted tree must serialize back to the original for every wrapper, including ones whose pair accessor builds fresh child objects; the object-lifetime schedule is owned and replayed by the simulator.",
   "CPython allocator determinism for identical allocation sequences in a fresh interpreter; wheel cdylib built from the working tree without hooks."),
})

NA = {
 "C01": "Pure function of (program, environment, budget): no schedule, fault, stream or history to simulate; the only entropy it consults (add/sub accumulator split) is covered by C03; and its oracle, the Python clvm package, is not installed and cannot be fetched offline.",
 "C05": "Compares three differently-compiled builds of pure code; the deciding method is cross-build differential testing, which has no fault, entropy, stream or history dimension for a simulator to own.",
 "C06": "div/divmod/mod/modpow read only their argument bytes and flags and allocate the result after computing it; a pure function of its input, decided by input enumeration, not simulation.",
 "C07": "A relation between runs under two flag sets; flags are configuration inputs, no state, stream, entropy or fault is involved.",
 "C09": "Closed-form arithmetic on opcode bytes and argument lengths; pure function of its input.",
 "C10": "Closed-form cost formulas over argument sizes; pure function of its input.",
 "C11": "A relation between two configurations of pure operators; nothing to inject or schedule.",
 "C15": "Serializer, decoder and length functions are pure functions of a tree or byte string (Cursor-only); the one stream-facing piece, the size-limited writer, is C29's subject.",
 "C18": "All three functions take Cursor<&[u8]> / &[u8]: no stream behaviour can be injected and no entropy is read; pure function of the byte string.",
 "C21": "A bijection on 56-bit integers decided by enumeration; its stream use is exercised inside C20 sessions.",
 "C22": "Seven pure implementations of one recursive definition; agreement is input enumeration (two of them serve as oracles inside C16).",
 "C23": "An inequality between two deterministic costs; pure function of the tree and flags.",
 "C24": "intern_tree reads no entropy that reaches its output (its std HashMaps are never iterated) and keeps no state across calls; pure function of the tree.",
 "C26": "Byte-for-byte wrapper of pure functions; the only concurrency (GIL released around run_program) operates on a call-private allocator, and CPython thread scheduling is not something this simulator could own.",
 "C28": "Pure-Python codecs and curry helpers are pure functions of their input; the property is stated over byte strings, not over stream behaviour.",
 "C30": "Two dispatch tables over the same pure operators; decided by input enumeration.",
 "C32": "Pure cryptographic functions; no independent BLS/secp/keccak implementation exists offline to compare against in any case.",
}

PENDING = ["C02","C03","C04","C08","C16","C17","C19","C20","C25","C27","C31"]

def main():
    hooks_commits = subprocess.run(["git","-C","/repo","log","--format=%h %s","--grep=^verif-hooks"],capture_output=True,text=True).stdout.strip().splitlines()
    checks=[]
    for pid,(level,ref,tech,text,note) in sorted(BUILT.items()):
        checks.append({
            "property_id": pid,
            "quick_cmd": f"./check {pid} quick",
            "thorough_cmd": f"./check {pid} thorough",
            "evidence_file": f"/verif/evidence/{pid}.json",
            "replay_cmd_template": f"./check {pid} --replay {{path}}",
            "engine": "pysim" if pid=="C27" else "clvmsim",
            "level_claimed": {"category": level, "text": text, "design_ref": ref},
            "level_note": note,
            "technique": "deterministic simulation with fault injection: " + tech,
        })
    na=[{"property_id":k,"reason":v} for k,v in sorted(NA.items())]
    for p in PENDING:
        if p not in BUILT:
            na.append({"property_id":p,"reason":"Claimed in DESIGN.md (§5) but its check is still under construction at this commit; not claimed until the check exists."})
    na.sort(key=lambda x:x["property_id"])
    m={
      "version":1,
      "setup_cmd":"./check setup",
      "hooks":{
        "guard":"verif-hooks",
        "enable":"cargo feature `verif-hooks` of crate clvmr, enabled by /verif/sim/Cargo.toml: clvmr = { path = \"/repo\", features = [\"verif-hooks\"] } (the wheel cdylib used by C27 is built without it)",
        "baseline_off_cmd":"cd /repo && cargo nextest run --workspace --no-fail-fast --tool-config-file pb:/w/lib/nextest.toml --profile pb --test-threads 8 --offline || cargo test --workspace --no-fail-fast --offline",
        "source_commits":[l.split()[0] for l in hooks_commits][::-1],
        "add_only":True,
      },
      "engines":[
        {"name":"clvmsim","path":"/verif/sim","serves_properties":[p for p in sorted(BUILT) if p!="C27"],"kind_free_text":"single-process seeded discrete-step simulator (Rust): PRNG-owned workload, entropy, stream faults, resource-cap faults and rollback histories; worker processes for crash isolation; explicit replay files and minimisation"},
        {"name":"pysim","path":"/verif/pysim","serves_properties":["C27"] if "C27" in BUILT else [],"kind_free_text":"seeded Python driver that owns object lifetimes / address reuse around the wheel's clvm_tree_to_lazy_node"},
      ],
      "checks":checks,
      "not_applicable":na,
      "notes":"All checks go through ./check (exit 0 held / 1 VIOLATION line / 2 harness error). Known findings: /verif/known_findings.txt (read-only at run time). Default VERIF_SEED=20260921.",
    }
    json.dump(m,open(os.path.join(HERE,"MANIFEST.json"),"w"),indent=1)
    print("wrote MANIFEST.json:",len(checks),"checks,",len(na),"not_applicable")
main()
