#!/bin/bash
# tools/confirm_seeded.sh <PROP>  - independent confirmation of a sub-agent's seeded change in its
# scratch worktree /tmp/wt/<PROP>: (1) demo fails with the change, (2) demo passes without it,
# (3) the existing suite passes with the change (demo excluded). Prints a summary.
P="$1"; WT=${WTROOT:-/tmp/wt}/$P
cd "$WT" || exit 2
export CARGO_NET_OFFLINE=true
[ -f tests/seeded_demo.rs ] || { echo "$P: no tests/seeded_demo.rs"; ls _out; }
echo "== $P: demo WITH change"
cargo test --offline --test seeded_demo 2>&1 | grep -E "^test result|error\[" | head -3
echo "== $P: suite WITH change (demo excluded)"
cargo nextest run --workspace --no-fail-fast --offline -E 'not binary(seeded_demo)' 2>&1 | grep -E "Summary|FAIL" | head -5
# (no git stash: the stash stack is shared by all worktrees)
git diff -- src wheel/src > _out/confirm_patch.diff
git checkout -- src wheel/src
echo "== $P: demo WITHOUT change"
cargo test --offline --test seeded_demo 2>&1 | grep -E "^test result|error\[" | head -3
git apply _out/confirm_patch.diff
git diff --stat -- src wheel/src | tail -1
