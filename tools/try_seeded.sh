#!/bin/bash
# tools/try_seeded.sh <patch.diff> <check id> [more check ids...]
# Applies a seeded change to /repo, runs the given quick checks, restores /repo.
# Prints one line per check: "<id>: DETECTED (<oracle>)" or "<id>: missed".
PATCH="$(readlink -f "$1")"; shift
cd /repo || exit 2
if ! git diff --quiet; then echo "refusing: /repo has uncommitted changes" >&2; exit 2; fi
restore() { git -C /repo checkout -- . ; }
trap restore EXIT
git apply "$PATCH" || { echo "patch does not apply" >&2; exit 2; }
cd /verif
for id in "$@"; do
  out=$(./check "$id" quick --no-evidence 2>&1)
  rc=$?
  if echo "$out" | grep -q "^VIOLATION property=$id"; then
    echo "$id: DETECTED rc=$rc $(echo "$out" | grep -m1 '^violation:' | cut -c1-220)"
    echo "$out" | grep -A1 -m1 '^violation:' | tail -1 | cut -c1-300
  else
    echo "$id: missed rc=$rc $(echo "$out" | tail -1 | cut -c1-200)"
  fi
done
