#!/bin/bash
# tools/matrix.sh <out-file> [workers]   (MATRIX_OWN=1: only the check of the property the change was aimed at)
# tools/matrix.sh <out-file> [workers]   (run from a SNAPSHOT: vp run --with-repo -- tools/matrix.sh out.txt)
# Which checks catch which seeded changes: every seeded patch is applied to the repository
# snapshot ($VP_RUN_REPO), every check of the same family is run (quick), the snapshot is restored.
OUT="${1:-matrix.txt}"; W="${2:-16}"
HERE="$(cd "$(dirname "$0")/.." && pwd)"; cd "$HERE" || exit 2
REPO="${VP_RUN_REPO:?run from vp run --with-repo}"
export VERIF_REPO="$REPO"
interp="C02 C03 C04 C08 C13 C25 C31"; alloc="C12 C13 C14 C03 C04 C25"; serde="C16 C17 C19 C20 C29"; py="C27"
family() { case "$1" in C02|C03|C08|C25|C31) echo "$interp";; C04) echo "$interp C12";; C12|C13|C14) echo "$alloc";; C16|C17|C19|C20|C29) echo "$serde";; C27) echo "$py";; esac; }
: > "$OUT"
for d in seeded/*-agent seeded/*-agent2 seeded/*-agent3 seeded/*-agent4 seeded/*-agent5; do
  [ -f "$d/patch.diff" ] || continue
  id=$(basename "$d"); prop=${id%%-*}
  ( cd "$REPO" && git checkout -q -- . && git apply "$HERE/$d/patch.diff" ) || { echo "$id: patch does not apply" >> "$OUT"; continue; }
  line="$id:"
  checks=$(family "$prop"); [ -n "${MATRIX_OWN:-}" ] && checks="$prop"
  for c in $checks; do
    out=$(./check "$c" quick --no-evidence --workers "$W" 2>&1)
    if echo "$out" | grep -q "^VIOLATION property=$c"; then
      o=$(echo "$out" | grep -m1 '^violation:' | sed 's/.*oracle=\([^ ]*\).*/\1/')
      line="$line $c=DETECTED($o)"
    else
      line="$line $c=-"
    fi
  done
  echo "$line" | tee -a "$OUT"
  ( cd "$REPO" && git checkout -q -- . )
done
echo done >> "$OUT"
