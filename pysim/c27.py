#!/usr/bin/env python3
"""C27 - clvm_tree_to_lazy_node preserves any CLVM object.

Seeded simulation of the one piece of nondeterminism this function depends
on: the lifetime and the address of the Python objects it walks (its memo is
keyed by CPython object addresses). The simulator owns, per call to `.pair`
of a harness storage object, whether cached or fresh child objects are
returned, whether a garbage collection runs and how many same-size junk
objects are allocated and freed first (address-reuse churn); and it offers the
tree through every CLVMStorage implementation the wheel ships.

  c27.py --tier quick|thorough [--seed N] [--runs N] [--workers N]
  c27.py --replay FILE
  c27.py --worker ...            (internal)
  c27.py --exec-case FILE        (internal: run one explicit case, print result)

exit 0 held / 1 VIOLATION / 2 harness error
"""
import gc
import hashlib
import json
import os  # noqa: E402
import subprocess
import sys
import time

VERIF = os.environ.get("VERIF_DIR", "/verif")
PYWHEEL = VERIF + "/target/pywheel"
DEFAULT_SEED = 20260921
MASK = (1 << 64) - 1
PROP = "C27"


# --------------------------------------------------------------------------- PRNG (same as sim/src/rng.rs)
def splitmix64(state):
    state = (state + 0x9E3779B97F4A7C15) & MASK
    z = state
    z = ((z ^ (z >> 30)) * 0xBF58476D1CE4E5B9) & MASK
    z = ((z ^ (z >> 27)) * 0x94D049BB133111EB) & MASK
    return state, z ^ (z >> 31)


def run_seed(master, prop, run):
    s = master ^ 0x5EEDC1A55EEDC1A5
    s, v = splitmix64(s)
    for b in prop.encode():
        s ^= (b * 0x100000001B3) & MASK
        s, x = splitmix64(s)
        v ^= x
    s ^= (run * 0xD6E8FEB86659FD93) & MASK
    s, x = splitmix64(s)
    return v ^ x


class Rng:
    def __init__(self, seed):
        st = seed & MASK
        self.s = []
        for _ in range(4):
            st, v = splitmix64(st)
            self.s.append(v)

    def next(self):
        s = self.s
        r = (s[1] * 5) & MASK
        r = ((r << 7) | (r >> 57)) & MASK
        r = (r * 9) & MASK
        t = (s[1] << 17) & MASK
        s[2] ^= s[0]
        s[3] ^= s[1]
        s[1] ^= s[2]
        s[0] ^= s[3]
        s[2] ^= t
        s[3] = ((s[3] << 45) | (s[3] >> 19)) & MASK
        return r

    def below(self, n):
        return (self.next() * n) >> 64

    def chance(self, a, b):
        return self.below(b) < a

    def bytes(self, n):
        out = bytearray()
        while len(out) < n:
            out += self.next().to_bytes(8, "little")
        return bytes(out[:n])


# --------------------------------------------------------------------------- trees and the reference serializer
# a tree is bytes (atom) or a 2-tuple (left, right); cases carry it as JSON: hex string or [l, r]
def tree_to_json(t):
    # iterative
    out = {}
    stack = [(t, False)]
    res = []
    while stack:
        node, done = stack.pop()
        if isinstance(node, (bytes, bytearray)):
            res.append(bytes(node).hex())
        elif done:
            r = res.pop()
            l = res.pop()
            res.append([l, r])
        else:
            stack.append((node, True))
            stack.append((node[1], False))
            stack.append((node[0], False))
    return res[0]


def tree_from_json(j):
    stack = [(j, False)]
    res = []
    while stack:
        node, done = stack.pop()
        if isinstance(node, str):
            res.append(bytes.fromhex(node))
        elif done:
            r = res.pop()
            l = res.pop()
            res.append((l, r))
        else:
            stack.append((node, True))
            stack.append((node[1], False))
            stack.append((node[0], False))
    return res[0]


def ser_atom(b):
    n = len(b)
    if n == 0:
        return b"\x80"
    if n == 1 and b[0] < 0x80:
        return bytes(b)
    if n < 0x40:
        return bytes([0x80 | n]) + b
    if n < 0x2000:
        return bytes([0xC0 | (n >> 8), n & 0xFF]) + b
    if n < 0x100000:
        return bytes([0xE0 | (n >> 16), (n >> 8) & 0xFF, n & 0xFF]) + b
    raise ValueError("atom too large for the reference serializer")


def ser_classic(t):
    out = bytearray()
    stack = [t]
    while stack:
        node = stack.pop()
        if isinstance(node, (bytes, bytearray)):
            out += ser_atom(node)
        else:
            out.append(0xFF)
            stack.append(node[1])
            stack.append(node[0])
    return bytes(out)


def gen_atom(rng):
    c = rng.below(10)
    if c == 0:
        return b""
    if c <= 3:
        return bytes([rng.below(256)])
    if c <= 5:
        return rng.bytes(2 + rng.below(6))
    if c == 6:
        return rng.bytes([32, 20, 19, 21, 33][rng.below(5)])
    if c == 7:
        return rng.bytes(60 + rng.below(10))
    return rng.bytes(1 + rng.below(3))


def gen_tree(rng, max_leaves):
    leaves = 1 + rng.below(max_leaves)
    pool = [gen_atom(rng) for _ in range(1 + rng.below(3))]
    forest = []
    near = rng.below(3) * 15  # percent of atoms that differ from an earlier one in one byte
    for _ in range(leaves):
        if forest and rng.below(100) < near:
            b = bytearray(forest[rng.below(len(forest))])
            if not b:
                b = bytearray([rng.below(256)])
            elif rng.chance(1, 2):
                b[-1] ^= 1 << rng.below(8)
            elif rng.chance(1, 2):
                b[rng.below(len(b))] ^= 1 << rng.below(8)
            else:
                b.append(rng.below(256))
            forest.append(bytes(b))
            continue
        forest.append(pool[rng.below(len(pool))] if rng.chance(2, 5) else gen_atom(rng))
    shared = []
    shape = rng.below(3)
    while len(forest) > 1:
        if shape == 0:
            i = rng.below(len(forest) - 1)
        elif shape == 1:
            i = 0
        else:
            i = len(forest) - 2
        l, r = forest[i], forest[i + 1]
        if shared and rng.chance(1, 4):
            if rng.chance(1, 2):
                l = shared[rng.below(len(shared))]
            else:
                r = shared[rng.below(len(shared))]
        p = (l, r)
        if rng.chance(1, 4):
            shared.append(p)
            if rng.chance(1, 3):
                shared.append((r, l))  # the mirror image over the same children
        forest[i] = p
        del forest[i + 1]
    return forest[0]


# --------------------------------------------------------------------------- the simulated storage object
class Decisions:
    """Explicit per-call decisions of the simulator (recorded for replay)."""

    def __init__(self, script=None, rng=None, churn=True):
        self.script = script  # list of [fresh, collect, junk] or None -> draw from rng
        self.rng = rng
        self.pos = 0
        self.log = []
        self.churn = churn

    def next(self):
        if self.script is not None:
            d = self.script[self.pos] if self.pos < len(self.script) else [1, 0, 0]
        else:
            r = self.rng
            fresh = 0 if r.chance(1, 4) else 1
            collect = 1 if r.chance(1, 16) else 0
            junk = r.below(4) if (self.churn and r.chance(1, 3)) else 0
            d = [fresh, collect, junk]
        self.pos += 1
        self.log.append(d)
        return d


_junk_keep = []


class SimStorage:
    """CLVMStorage whose .pair builds fresh child objects when the simulator says so."""

    __slots__ = ("_t", "_dec", "_cache", "stats")

    def __init__(self, tree, dec, stats):
        self._t = tree
        self._dec = dec
        self._cache = None
        self.stats = stats

    @property
    def atom(self):
        t = self._t
        return bytes(t) if isinstance(t, (bytes, bytearray)) else None

    @property
    def pair(self):
        t = self._t
        if isinstance(t, (bytes, bytearray)):
            return None
        fresh, collect, junk = self._dec.next()
        st = self.stats
        if collect:
            gc.collect()
            st["gc_collect"] += 1
        for _ in range(junk):
            # same size class as the child objects: allocate and free immediately
            j = SimStorage(b"", self._dec, st)
            del j
            st["junk_alloc_free"] += 1
        if fresh or self._cache is None:
            st["fresh_children"] += 1
            pair = (SimStorage(t[0], self._dec, st), SimStorage(t[1], self._dec, st))
            if not fresh:
                self._cache = pair
            return pair
        st["cached_children"] += 1
        return self._cache


class Mix:
    """a plain pair object whose children may be objects of any other storage kind"""

    __slots__ = ("atom", "pair")

    def __init__(self, l, r):
        self.atom = None
        self.pair = (l, r)


def build_mixed(tree, expect, mod, rng, stats):
    """The tree as a plain-Python spine whose sub-trees are handles into *several* backing
    stores of the same tree (LazyNodes of three different allocators, a CLVMTree, a Program),
    reached by walking .pair from each store's root, so handles of one store are visited
    before and after handles of another."""
    m, Program, CLVMTree = mod
    roots = {
        "lazy_legacy": m.deser_legacy(expect),
        "lazy_backrefs": m.deser_backrefs(m.ser_backrefs(m.deser_legacy(expect))),
        "lazy_2026": m.deser_2026(m.ser_2026(m.deser_legacy(expect))),
        "clvm_tree": CLVMTree.from_bytes(expect),
        "program": Program.to(tree),
    }
    kinds = sorted(roots)

    def handle(kind, path):
        obj = roots[kind]
        for step in path:
            obj = obj.pair[step]
        return obj

    # iterative build (post-order) to survive deep trees
    out = {}
    stack = [(tree, (), False)]
    while stack:
        node, path, done = stack.pop()
        if done:
            out[path] = Mix(out.pop(path + (0,)), out.pop(path + (1,)))
            stats["mix_nodes"] = stats.get("mix_nodes", 0) + 1
            continue
        if isinstance(node, (bytes, bytearray)) or len(path) > 40 or rng.chance(1, 3):
            k = kinds[rng.below(len(kinds))]
            out[path] = handle(k, path)
            stats["mix_handles." + k] = stats.get("mix_handles." + k, 0) + 1
            continue
        stack.append((node, path, True))
        stack.append((node[1], path + (1,), False))
        stack.append((node[0], path + (0,), False))
    return out[()]


class Node:
    """a plain CLVMStorage object: just .atom and .pair"""

    __slots__ = ("atom", "pair")

    def __init__(self, atom=None, pair=None):
        self.atom = atom
        self.pair = pair


class FNode:
    """CLVMStorage object whose accessors fail when the simulator says so: the k-th accessor call
    of the object graph raises (an I/O-style fault in a user-supplied storage object), or one leaf
    temporarily reports a malformed atom"""

    __slots__ = ("_atom", "_pair", "_st")

    def __init__(self, atom, pair, st):
        self._atom = atom
        self._pair = pair
        self._st = st

    def _tick(self):
        st = self._st
        c = st["countdown"]
        if c is not None:
            if c == 0:
                st["countdown"] = None
                st["fired"] += 1
                raise RuntimeError("simulated accessor failure")
            st["countdown"] = c - 1

    @property
    def atom(self):
        self._tick()
        return self._atom

    @property
    def pair(self):
        self._tick()
        return self._pair


def build_faulty(tree, rng, stats):
    """object graph of FNodes (equal sub-trees interned, as in build_dag) + its shared fault state
    + the list of leaf objects"""
    st = {"countdown": None, "fired": 0}
    ids = {}
    objs = {}
    leaves = []
    res = []
    stack = [(tree, False)]
    n_nodes = 0
    while stack:
        node, done = stack.pop()
        if isinstance(node, (bytes, bytearray)):
            key = ("a", bytes(node))
        elif done:
            r = res.pop()
            l = res.pop()
            key = ("p", id(l), id(r))
        else:
            stack.append((node, True))
            stack.append((node[1], False))
            stack.append((node[0], False))
            continue
        n_nodes += 1
        intern = rng.chance(2, 3)
        if intern and key in objs:
            res.append(objs[key])
            continue
        if key[0] == "a":
            o = FNode(key[1], None, st)
            leaves.append(o)
        else:
            o = FNode(None, (l, r), st)
        if intern:
            objs[key] = o
        res.append(o)
    return res[0], st, leaves, n_nodes


def build_dag(tree, kind, mod, rng, stats):
    """The tree as an object graph in which equal sub-trees are (mostly) ONE Python object that
    several parents point to - the way application code reuses Program values as building blocks.
    Per distinct value the simulator decides once whether it is interned or built afresh at every
    occurrence. kind: node (plain objects), program (Program.to over shared Program children),
    lazy_leaves (plain pair objects over LazyNode-backed leaf Programs)."""
    m, Program, CLVMTree = mod
    all_interned = rng.chance(1, 2)
    ids = {}  # value key -> small int
    interned = {}  # small int -> bool
    objs = {}  # small int -> object (for interned values)

    def make(key):
        if key[0] == "a":
            b = key[1]
            if kind == "node":
                return Node(atom=b)
            if kind == "program":
                return Program.to(b)
            return Program.from_bytes(ser_atom(b))
        l, r = key[1], key[2]
        if kind == "program":
            return Program.to((l, r))
        return Node(pair=(l, r))

    res = []  # (value id, object)
    stack = [(tree, False)]
    while stack:
        node, done = stack.pop()
        if isinstance(node, (bytes, bytearray)):
            vkey = ("a", bytes(node))
            okey = vkey
        elif done:
            (rid, robj) = res.pop()
            (lid, lobj) = res.pop()
            vkey = ("p", lid, rid)
            okey = ("p", lobj, robj)
        else:
            stack.append((node, True))
            stack.append((node[1], False))
            stack.append((node[0], False))
            continue
        vid = ids.setdefault(vkey, len(ids))
        if vid not in interned:
            interned[vid] = all_interned or rng.chance(2, 3)
        if interned[vid]:
            if vid not in objs:
                objs[vid] = make(okey)
                stats["dag_objects"] = stats.get("dag_objects", 0) + 1
            else:
                stats["dag_shared_uses"] = stats.get("dag_shared_uses", 0) + 1
            res.append((vid, objs[vid]))
        else:
            stats["dag_objects"] = stats.get("dag_objects", 0) + 1
            res.append((vid, make(okey)))
    return res[0][1]


WRAPPERS = [
    "program_to",
    "clvm_tree",
    "lazy_legacy",
    "lazy_backrefs",
    "lazy_2026",
    "lazy_auto",
    "program_wrap_lazy",
    "program_wrap_clvm_tree",
    "sim_storage",
    "program_wrap_sim_storage",
    "lazy_of_lazy",
    "mixed",
    "program_wrap_mixed",
    "dag_node",
    "dag_program",
    "dag_lazy_leaves",
    "program_wrap_dag_node",
    "retry_after_fault",
]


def limit_process():
    """address-space cap: a conversion that goes wild (e.g. a cyclic node graph) dies on its own
    instead of taking the machine's memory"""
    import resource

    cap = 3 << 30  # 16 workers x 3 GiB stays below the machine's memory
    try:
        resource.setrlimit(resource.RLIMIT_AS, (cap, cap))
    except (ValueError, OSError):
        pass


def load_wheel():
    sys.path.insert(0, PYWHEEL)
    import clvm_rs.clvm_rs as m  # noqa
    from clvm_rs.program import Program
    from clvm_rs.clvm_tree import CLVMTree

    return m, Program, CLVMTree


def execute_case(case, mod):
    """Run one explicit case. Returns (violation or None, stats, decisions log)."""
    m, Program, CLVMTree = mod
    tree = tree_from_json(case["tree"])
    expect = ser_classic(tree)
    stats = {"gc_collect": 0, "junk_alloc_free": 0, "fresh_children": 0, "cached_children": 0}
    dec = Decisions(script=case.get("decisions"), rng=Rng(case.get("decision_seed", 0)), churn=case.get("churn", True))
    w = case["wrapper"]
    if w == "program_to":
        x = Program.to(tree)
    elif w == "clvm_tree":
        x = CLVMTree.from_bytes(expect)
    elif w == "lazy_legacy":
        x = m.deser_legacy(expect)
    elif w == "lazy_backrefs":
        x = m.deser_backrefs(m.ser_backrefs(m.deser_legacy(expect)))
    elif w == "lazy_2026":
        x = m.deser_2026(m.ser_2026(m.deser_legacy(expect)))
    elif w == "lazy_auto":
        x = m.deser_auto(expect)
    elif w == "program_wrap_lazy":
        x = Program.wrap(m.deser_legacy(expect))
    elif w == "program_wrap_clvm_tree":
        x = Program.wrap(CLVMTree.from_bytes(expect))
    elif w == "sim_storage":
        x = SimStorage(tree, dec, stats)
    elif w == "program_wrap_sim_storage":
        x = Program.wrap(SimStorage(tree, dec, stats))
    elif w == "lazy_of_lazy":
        x = m.clvm_tree_to_lazy_node(m.deser_legacy(expect))
    elif w == "mixed":
        x = build_mixed(tree, expect, mod, Rng(case.get("decision_seed", 0) ^ 0x5151), stats)
    elif w == "program_wrap_mixed":
        x = Program.wrap(build_mixed(tree, expect, mod, Rng(case.get("decision_seed", 0) ^ 0x5151), stats))
    elif w in ("dag_node", "dag_program", "dag_lazy_leaves", "program_wrap_dag_node"):
        kind = {"dag_node": "node", "dag_program": "program", "dag_lazy_leaves": "lazy_leaves", "program_wrap_dag_node": "node"}[w]
        x = build_dag(tree, kind, mod, Rng(case.get("decision_seed", 0) ^ 0xDA6), stats)
        if w == "program_wrap_dag_node":
            x = Program.wrap(x)
    elif w == "retry_after_fault":
        # history: one or two conversions of the same objects that FAIL because an accessor raised
        # or a leaf was malformed at that moment, then the fault is gone and the conversion proper
        frng = Rng(case.get("decision_seed", 0) ^ 0xFA17)
        x, fst, leaves, n_nodes = build_faulty(tree, frng, stats)
        for _ in range(1 + frng.below(2)):
            mode = frng.below(3)
            bad = None
            if mode == 0 or not leaves:
                fst["countdown"] = frng.below(2 * n_nodes + 1)
            else:
                bad = leaves[frng.below(len(leaves))]
                keep = bad._atom
                bad._atom = "not bytes" if mode == 1 else 17
            try:
                m.clvm_tree_to_lazy_node(x)
                stats["prior_call_succeeded"] = stats.get("prior_call_succeeded", 0) + 1
            except (KeyboardInterrupt, SystemExit):
                raise
            except BaseException:
                stats["prior_call_failed"] = stats.get("prior_call_failed", 0) + 1
            fst["countdown"] = None
            if bad is not None:
                bad._atom = keep
        stats["accessor_raised"] = stats.get("accessor_raised", 0) + fst["fired"]
    else:
        raise ValueError("unknown wrapper " + w)
    try:
        lazy = m.clvm_tree_to_lazy_node(x)
        blob = m.ser_2026(lazy)
        back = m.ser_legacy(m.deser_2026(blob))
        direct = m.ser_legacy(lazy)
    except (KeyboardInterrupt, SystemExit):
        raise
    except BaseException as e:  # the function must not fail on a valid object (pyo3 panics are BaseException)
        return ({"oracle": "converts-without-error", "class": {"wrapper": w}, "detail": "%s: %s" % (type(e).__name__, e)}, stats, dec.log)
    if back != expect or direct != expect:
        return (
            {
                "oracle": "preserves-tree",
                "class": {"wrapper": w},
                "detail": "wrapper %s: ser_2026 of the result decodes to %s..(%d bytes), the original tree is %s..(%d bytes)"
                % (w, back[:24].hex(), len(back), expect[:24].hex(), len(expect)),
            },
            stats,
            dec.log,
        )
    return (None, stats, dec.log)


def generate_case(master, tier, run):
    rng = Rng(run_seed(master, PROP, run))
    c = rng.below(10)
    if c < 4:
        max_leaves = 8
    elif c < 8:
        max_leaves = 40
    else:
        max_leaves = 300 if tier == "thorough" else 120
    tree = gen_tree(rng, max_leaves)
    # lazy wrappers and the simulated storage get most of the weight
    w = WRAPPERS[rng.below(len(WRAPPERS))] if rng.chance(1, 2) else ["sim_storage", "lazy_legacy", "lazy_backrefs", "program_wrap_lazy", "program_wrap_sim_storage", "lazy_2026", "mixed", "mixed", "dag_node", "dag_program", "retry_after_fault", "retry_after_fault"][rng.below(12)]
    return {"tree": tree_to_json(tree), "wrapper": w, "decision_seed": rng.next(), "churn": rng.chance(3, 4)}


def fingerprint(case, viol):
    h = hashlib.sha256(json.dumps([case["tree"], case["wrapper"], viol is None], sort_keys=True).encode()).digest()
    return int.from_bytes(h[:8], "big")


def count_pairs(j):
    n = 0
    stack = [j]
    while stack:
        x = stack.pop()
        if isinstance(x, list):
            n += 1
            stack.extend(x)
    return n


# --------------------------------------------------------------------------- worker
def worker(args):
    limit_process()
    mod = load_wheel()
    master, tier, first, stride, total, deadline, out = args
    cur = open(out + ".cur", "w")
    t_end = time.time() + deadline
    summary = {"runs": 0, "nontrivial": 0, "fps": [], "counters": {}, "violations": [], "samples": [], "digest": 0}
    fps = set()
    run = first
    while run < total and time.time() < t_end:
        case = generate_case(master, tier, run)
        # which case this worker is in, for the parent to attribute a dead worker
        cur.seek(0)
        cur.write("%-20d" % run)
        cur.flush()
        viol, stats, log = execute_case(case, mod)
        summary["runs"] += 1
        for k, v in stats.items():
            summary["counters"]["fault." + k] = summary["counters"].get("fault." + k, 0) + v
        summary["counters"]["probe.wrapper." + case["wrapper"]] = summary["counters"].get("probe.wrapper." + case["wrapper"], 0) + 1
        fp = fingerprint(case, viol)
        summary["digest"] = (summary["digest"] + ((fp ^ (run * 0x9E3779B97F4A7C15)) & MASK)) & MASK
        if count_pairs(case["tree"]) >= 2:
            summary["nontrivial"] += 1
            fps.add(fp)
            if len(summary["samples"]) < 2:
                summary["samples"].append({"run": run, "wrapper": case["wrapper"], "tree": json.dumps(case["tree"])[:200], "pair_calls_decided": len(log)})
        if viol is not None and len(summary["violations"]) < 4:
            case = dict(case)
            case["decisions"] = log  # explicit schedule for replay
            summary["violations"].append({"run": run, "case": case, "violation": viol})
        run += stride
    summary["fps"] = sorted(fps)
    with open(out, "w") as f:
        json.dump(summary, f)


def exec_case_file(path):
    limit_process()
    mod = load_wheel()
    case = json.load(open(path))
    viol, stats, log = execute_case(case, mod)
    print(json.dumps({"violation": viol, "stats": stats, "calls": len(log)}))


def run_case_fresh(case, hashseed="0"):
    """Execute a case in a fresh interpreter; returns the violation dict or None; 'died' on crash."""
    path = VERIF + "/target/run/c27-cand-%d.json" % os.getpid()
    os.makedirs(os.path.dirname(path), exist_ok=True)
    json.dump(case, open(path, "w"))
    env = dict(os.environ, PYTHONHASHSEED=hashseed, RUST_BACKTRACE="0")
    try:
        p = subprocess.run([sys.executable, os.path.abspath(__file__), "--exec-case", path], capture_output=True, text=True, env=env, timeout=120)
    except subprocess.TimeoutExpired:
        return {"oracle": "no-crash", "class": {"wrapper": case["wrapper"]}, "detail": "interpreter did not finish the case within 120 s"}
    if p.returncode != 0:
        return {"oracle": "no-crash", "class": {"wrapper": case["wrapper"]}, "detail": "interpreter died: " + p.stderr[-300:]}
    return json.loads(p.stdout.strip().splitlines()[-1])["violation"]


def shrink_tree(j):
    """candidate smaller trees"""
    out = []
    if isinstance(j, list):
        out.append(j[0])
        out.append(j[1])
        for k in (0, 1):
            for c in shrink_tree(j[k])[:6]:
                n = list(j)
                n[k] = c
                out.append(n)
    else:
        if len(j) > 2:
            out.append(j[:2])
        if j != "":
            out.append("")
    return out


def minimise(case, viol):
    t0 = time.time()
    best, bv, steps = case, viol, 0
    improved = True
    while improved and time.time() - t0 < 30:
        improved = False
        cands = []
        for t in shrink_tree(best["tree"])[:40]:
            c = dict(best)
            c["tree"] = t
            c.pop("decisions", None)  # a different tree makes a different number of .pair calls
            cands.append(c)
        if best.get("decisions"):
            c = dict(best)
            c["decisions"] = [[d[0], 0, 0] for d in best["decisions"]]
            if c["decisions"] != best["decisions"]:
                cands.append(c)
        for c in cands:
            if time.time() - t0 > 30:
                break
            v = run_case_fresh(c)
            if v is not None and v["oracle"] == bv["oracle"] and v["class"] == bv["class"]:
                best, bv, steps, improved = c, v, steps + 1, True
                break
    return best, bv, steps


def write_replay(master, run, case, viol, original, steps):
    d = VERIF + "/replays/" + PROP
    os.makedirs(d, exist_ok=True)
    path = "%s/%d-%d-%s.json" % (d, master, run, viol["oracle"])
    json.dump(
        {"property": PROP, "seed": master, "run": run, "run_seed": run_seed(master, PROP, run), "oracle": viol["oracle"], "class": viol["class"], "detail": viol["detail"], "minimise_steps": steps, "case": case, "original_case": original},
        open(path, "w"),
        indent=1,
    )
    return path


def replay(path):
    rf = json.load(open(path))
    results = []
    for hs in ("0", "1", "0"):
        results.append(run_case_fresh(rf["case"], hs))
    failing = [r for r in results if r is not None]
    if failing:
        v = failing[0]
        print("replayed in %d/%d fresh interpreters: oracle=%s class=%s" % (len(failing), len(results), v["oracle"], v["class"]))
        print("detail:", v["detail"])
        if len(failing) == len(results) and v["oracle"] == rf["oracle"]:
            print("REPLAY-IDENTICAL" if v["detail"] == rf["detail"] else "REPLAY-SAME-ORACLE (detail differs)")
        print("VIOLATION property=%s replay=%s" % (PROP, path))
        return 1
    print("replayed: no violation")
    return 0


def known_findings():
    out = []
    try:
        for line in open(VERIF + "/known_findings.txt"):
            line = line.strip()
            if line.startswith("open:"):
                k = json.loads(line[5:])
                if k.get("property") == PROP:
                    out.append(k)
    except FileNotFoundError:
        pass
    return out


NO_EVIDENCE = False


def parent(tier, master, runs, workers, budget_s):
    t0 = time.time()
    os.makedirs(VERIF + "/target/run", exist_ok=True)
    os.makedirs(VERIF + "/evidence", exist_ok=True)
    print("c27: property=C27 tier=%s VERIF_SEED=%d runs<=%d workers=%d" % (tier, master, runs, workers))
    procs = []
    for k in range(workers):
        out = "%s/target/run/c27-%d-w%d.json" % (VERIF, os.getpid(), k)
        env = dict(os.environ, PYTHONHASHSEED="0", RUST_BACKTRACE="0")
        p = subprocess.Popen([sys.executable, os.path.abspath(__file__), "--worker", str(master), tier, str(k), str(workers), str(runs), str(budget_s), out], env=env)
        procs.append((p, out, k))
    merged = {"runs": 0, "nontrivial": 0, "counters": {}, "violations": [], "samples": [], "digest": 0}
    fps = set()
    harness_problem = False
    for p, out, k in procs:
        rc = p.wait()
        curfile = out + ".cur"
        if rc != 0 or not os.path.exists(out):
            # a dead worker: the case it was in is the suspect; confirm in a fresh interpreter
            try:
                run = int(open(curfile).read().strip())
            except (OSError, ValueError):
                run = None
            if os.path.exists(curfile):
                os.remove(curfile)
            conf = None
            if run is not None:
                case = generate_case(master, tier, run)
                conf = run_case_fresh(case)
            if conf is not None:
                merged["violations"].append({"run": run, "case": case, "violation": conf})
                merged["counters"]["fault.worker_died_attributed"] = merged["counters"].get("fault.worker_died_attributed", 0) + 1
            else:
                print("HARNESS-ERROR: C27 worker %d exited with %s at run %s and the case passes in a fresh interpreter" % (k, rc, run), file=sys.stderr)
                harness_problem = True
            continue
        if os.path.exists(curfile):
            os.remove(curfile)
        s = json.load(open(out))
        os.remove(out)
        merged["runs"] += s["runs"]
        merged["nontrivial"] += s["nontrivial"]
        merged["digest"] = (merged["digest"] + s["digest"]) & MASK
        for kk, v in s["counters"].items():
            merged["counters"][kk] = merged["counters"].get(kk, 0) + v
        merged["violations"] += s["violations"]
        merged["samples"] += s["samples"]
        fps.update(s["fps"])
    known = known_findings()
    reported = []
    known_fired = {}
    exit_code = 0
    seen = set()
    merged["violations"].sort(key=lambda v: v["run"])
    for fv in merged["violations"]:
        v = fv["violation"]
        key = (v["oracle"], json.dumps(v["class"], sort_keys=True))
        if key in seen or len(reported) >= 3:
            continue
        seen.add(key)
        # confirm in a fresh interpreter with the explicit decision list
        conf = run_case_fresh(fv["case"])
        if conf is None:
            # the failure depended on the state of the worker's heap: re-run the whole stripe position
            # deterministically is not possible; report what was observed, flagged as not replayable
            print("HARNESS-WARNING: run %d failed inside its worker but passes in a fresh interpreter" % fv["run"], file=sys.stderr)
            harness_problem = True
            continue
        k = next((k for k in known if k["oracle"] == conf["oracle"] and all(conf["class"].get(a) == b for a, b in k.get("class", {}).items())), None)
        if k is not None:
            known_fired[k["id"]] = known_fired.get(k["id"], 0) + 1
            continue
        best, bv, steps = minimise(fv["case"], conf)
        path = write_replay(master, fv["run"], best, bv, fv["case"], steps)
        print("violation: run=%d oracle=%s class=%s" % (fv["run"], bv["oracle"], bv["class"]))
        print("  " + bv["detail"])
        print("VIOLATION property=%s replay=%s" % (PROP, path))
        reported.append({"run": fv["run"], "oracle": bv["oracle"], "class": bv["class"], "replay": path, "minimise_steps": steps})
        exit_code = 1
    for kid, n in known_fired.items():
        what = next(k["what"] for k in known if k["id"] == kid)
        print("KNOWN-FINDING: property=%s %s [%s; fired in %d runs]" % (PROP, what, kid, n))
    wall = time.time() - t0
    samples = sorted(merged["samples"], key=lambda s: s["run"])[:4] or [{"note": "no non-trivial case"}]
    reach = []
    for probe in ("fault.fresh_children", "fault.junk_alloc_free", "fault.gc_collect", "probe.wrapper.lazy_legacy", "probe.wrapper.sim_storage", "probe.wrapper.mixed", "fault.mix_handles.lazy_backrefs", "probe.wrapper.dag_node", "probe.wrapper.dag_program", "fault.dag_shared_uses", "fault.accessor_raised", "fault.prior_call_failed"):
        if merged["counters"].get(probe, 0) == 0:
            reach.append("probe '%s' never fired in this batch" % probe)
    ev = {
        "property_id": PROP,
        "tier": tier,
        "seed": master,
        "level": "exploration",
        "coverage": {
            "evaluations": merged["runs"],
            "distinct_nontrivial": len(fps),
            "rule": "case = seeded tree (1..120 leaves, thorough 300; shared sub-trees; atom classes nil / 1 byte / short / 32 / ~64 bytes) offered through one of 18 wrappers: Program.to, CLVMTree.from_bytes, LazyNode from deser_legacy / deser_backrefs / deser_2026 / deser_auto, Program.wrap of a LazyNode / CLVMTree / simulated storage, a LazyNode produced by clvm_tree_to_lazy_node itself, an identity-sharing object graph (dag_*: equal sub-trees are one Python object with several parents, incl. mirrored pairs (a . b)/(b . a) over the same children; plain objects, Program.to over shared Program children, plain pairs over LazyNode-backed leaves; per distinct value the simulator decides interned or fresh), a RETRY AFTER FAULT history (retry_after_fault: the same object graph is first converted once or twice while the simulator makes the k-th accessor call raise, or one leaf report a str / int atom - those calls fail - and then converted with the fault gone), a MIXED tree (plain-Python spine whose sub-trees are handles walked out of three LazyNode allocators, a CLVMTree and a Program of the same tree; also under Program.wrap), and a harness storage object whose .pair decides per call - from the run PRNG, recorded as an explicit list for replay - whether to return cached or fresh child objects, whether to run gc.collect(), and how many same-size junk objects to allocate and free first (address-reuse churn). Oracle: ser_legacy(deser_2026(ser_2026(result))) and ser_legacy(result) equal the harness's own classic serialization of the tree. Non-trivial: tree with >= 2 pairs; distinct = sha256 fingerprints of (tree, wrapper, outcome).",
            "samples": samples,
            "simulated_runs": merged["runs"],
            "nontrivial_runs": merged["nontrivial"],
            "runs_per_hour": int(merged["runs"] / wall * 3600) if wall > 0 else 0,
            "seeds": {"master": master, "first_run_seed": run_seed(master, PROP, 0), "derivation": "same mix(VERIF_SEED, property id, run index) as the Rust engine"},
            "simulated_time": {"sim.pair_calls_decided": merged["counters"].get("fault.fresh_children", 0) + merged["counters"].get("fault.cached_children", 0)},
            "faults_fired": {k: v for k, v in sorted(merged["counters"].items()) if k.startswith("fault.")},
            "probes": {k: v for k, v in sorted(merged["counters"].items()) if k.startswith("probe.")},
            "distinct_measure": "distinct fingerprints of (tree, wrapper, outcome) among non-trivial runs",
            "batch_fingerprint": "%016x" % merged["digest"],
            "workers": workers,
            "reach_warnings": reach,
            "components_real": ["wheel cdylib built from /repo (clvm_tree_to_lazy_node, ser_2026, deser_2026, ser_legacy, deser_*, LazyNode)", "clvm_rs Python package (Program, CLVMTree)", "CPython object allocator and garbage collector"],
            "components_stub": ["SimStorage: CLVMStorage whose child-object lifetimes are decided by the simulator", "reference classic serializer (pysim/c27.py)"],
            "known_findings_fired": known_fired,
            "violations_reported": reported,
            "exhaustive": False,
        },
        "assumptions": [
            "CPython's small-object allocator is deterministic for an identical allocation sequence in a fresh interpreter; a failing case is confirmed in a fresh interpreter before it is reported",
            "PYTHONHASHSEED=0 for workers; replay also runs under PYTHONHASHSEED=1",
        ],
        "wall_s": wall,
        "violations": len(reported),
    }
    if not NO_EVIDENCE:
        json.dump(ev, open(VERIF + "/evidence/C27.json", "w"), indent=1)
    print("c27: property=C27 runs=%d distinct_nontrivial=%d wall=%.1fs batch_fingerprint=%016x violations=%d" % (merged["runs"], len(fps), wall, merged["digest"], len(reported)))
    for r in reach:
        print("REACH-WARNING: " + r)
    if exit_code == 0 and harness_problem:
        return 2
    return exit_code


def main():
    a = sys.argv[1:]
    if a and a[0] == "--worker":
        worker((int(a[1]), a[2], int(a[3]), int(a[4]), int(a[5]), float(a[6]), a[7]))
        return 0
    if a and a[0] == "--exec-case":
        exec_case_file(a[1])
        return 0
    tier = os.environ.get("VERIF_TIER", "quick")
    seed = int(os.environ.get("VERIF_SEED", DEFAULT_SEED))
    runs = None
    workers = min(16, os.cpu_count() or 4)
    budget = None
    i = 0
    while i < len(a):
        if a[i] == "--tier":
            tier = a[i + 1]
            i += 1
        elif a[i] == "--seed":
            seed = int(a[i + 1])
            i += 1
        elif a[i] == "--runs":
            runs = int(a[i + 1])
            i += 1
        elif a[i] == "--workers":
            workers = int(a[i + 1])
            i += 1
        elif a[i] == "--budget-s":
            budget = float(a[i + 1])
            i += 1
        elif a[i] == "--no-evidence":
            global NO_EVIDENCE
            NO_EVIDENCE = True
        elif a[i] == "--replay":
            return replay(a[i + 1])
        elif a[i] in ("quick", "thorough"):
            tier = a[i]
        i += 1
    if runs is None:
        runs = int(os.environ.get("VERIF_RUNS", 0)) or (60_000 if tier == "quick" else 40_000_000)
    if budget is None:
        budget = float(os.environ.get("VERIF_BUDGET_S", 0)) or (120.0 if tier == "quick" else 600.0)
    try:
        return parent(tier, seed, runs, max(1, workers), budget)
    except Exception as e:  # noqa
        print("HARNESS-ERROR: %s: %s" % (type(e).__name__, e), file=sys.stderr)
        return 2


if __name__ == "__main__":
    sys.exit(main())
