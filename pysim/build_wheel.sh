#!/bin/bash
# Build the clvm_rs Python extension (cdylib) from /repo's current working tree,
# offline, without the verif-hooks feature, and lay it out next to the Python
# package so that `import clvm_rs` works with PYTHONPATH=/verif/target/pywheel.
set -e
export CARGO_NET_OFFLINE=true
V="${VERIF_DIR:-/verif}"
R="${VERIF_REPO:-/repo}"
OUT="$V/target/pywheel"
cd "$R"
CARGO_TARGET_DIR="$V/target/wheel" cargo build --offline --release -p clvm_rs
mkdir -p "$OUT"
rm -rf "$OUT/clvm_rs"
cp -r "$R/wheel/python/clvm_rs" "$OUT/clvm_rs"
cp "$V/target/wheel/release/libclvm_rs.so" "$OUT/clvm_rs/clvm_rs.abi3.so"
PYTHONPATH="$OUT" python3 -c "import clvm_rs.clvm_rs as m; assert hasattr(m, 'clvm_tree_to_lazy_node'); print('wheel ok')"
