#!/bin/bash
# ./check selftest  - proves the machinery itself:
#   1. determinism: every engine gives the same batch fingerprint for the same seed, at 1 and
#      16 workers, in separate processes, twice (C27 additionally under PYTHONHASHSEED 0 and 1);
#   2. replay + minimisation: a planted violation is found, minimised, written to a replay file
#      and reproduces identically in a fresh process;
#   3. crash attribution: a planted abort() is attributed to its run, confirmed in a fresh
#      child and reported with a replay file.
# exit 0 ok / 2 machinery problem
cd /verif || exit 2
SIM=/verif/target/release/clvmsim
N=${SELFTEST_RUNS:-2000}
fail=0
fpof() { grep -o 'batch_fingerprint=[0-9a-f]*' | tail -1; }
for p in C02 C03 C04 C08 C12 C13 C14 C16 C17 C19 C20 C25 C29 C31; do
  a=$($SIM run $p --runs $N --workers 1 --no-evidence 2>/dev/null | fpof)
  b=$($SIM run $p --runs $N --workers 16 --no-evidence 2>/dev/null | fpof)
  c=$($SIM run $p --runs $N --workers 5 --no-evidence 2>/dev/null | fpof)
  d=$($SIM run $p --runs $N --workers 16 --no-evidence 2>/dev/null | fpof)
  if [ -n "$a" ] && [ "$a" = "$b" ] && [ "$a" = "$c" ] && [ "$a" = "$d" ]; then echo "determinism $p ok ($a)"; else echo "determinism $p FAILED: $a $b $c $d"; fail=1; fi
done
if [ -d /verif/target/pywheel ]; then
  a=$(PYTHONHASHSEED=0 python3 pysim/c27.py --runs 800 --workers 1 --no-evidence 2>/dev/null | fpof)
  b=$(PYTHONHASHSEED=1 python3 pysim/c27.py --runs 800 --workers 8 --no-evidence 2>/dev/null | fpof)
  c=$(PYTHONHASHSEED=0 python3 pysim/c27.py --runs 800 --workers 16 --no-evidence 2>/dev/null | fpof)
  if [ -n "$a" ] && [ "$a" = "$b" ] && [ "$a" = "$c" ]; then echo "determinism C27 ok ($a)"; else echo "determinism C27 FAILED: $a $b $c"; fail=1; fi
fi
# planted violation
out=$($SIM run SELFTEST --runs 2000 --no-evidence 2>&1)
rf=$(echo "$out" | grep -o 'replay=[^ ]*' | head -1 | cut -d= -f2)
if [ -z "$rf" ]; then echo "planted violation NOT found"; fail=1; else
  if python3 -c "import json,sys; c=json.load(open('$rf'))['case']['xs']; sys.exit(0 if c==[7,13] else 1)"; then echo "minimiser ok (case [7, 13])"; else echo "minimiser FAILED"; fail=1; fi
  if $SIM replay "$rf" | grep -q REPLAY-IDENTICAL; then echo "replay ok"; else echo "replay FAILED"; fail=1; fi
fi
# planted abort
out=$(CLVMSIM_SELFTEST_ABORT=1 $SIM run SELFTEST --runs 2000 --seed 5 --no-evidence 2>&1)
if echo "$out" | grep -q "run=777 oracle=no-abort"; then echo "crash attribution ok"; else echo "crash attribution FAILED"; echo "$out" | tail -5; fail=1; fi
rm -rf /verif/replays/SELFTEST
[ $fail = 0 ] && { echo "selftest ok"; exit 0; } || exit 2
